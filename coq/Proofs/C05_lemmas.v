(* Proofs for C05 (timing of send_request) and the loop facts C06 / C09 / C15 reuse.
   All statements are for every schedule (list of arrivals), by structural induction on it. *)
From Coq Require Import ZArith List Bool String Lia ZifyBool.
From UDS Require Import Lib.Bytes Lib.ErrM Lib.PyOps Spec.Timing Model.Message Model.Client Proofs.C17_lemmas.
Import ListNotations.
Open Scope Z_scope.
Open Scope list_scope.

Definition wl_res {A B C D} (x : A * B * C * D) : A := fst (fst (fst x)).
Definition wl_time {A B C D} (x : A * B * C * D) : B := snd (fst (fst x)).
Definition wl_sched {A B C D} (x : A * B * C * D) : C := snd (fst x).
Definition wl_trace {A B C D} (x : A * B * C * D) : D := snd x.

(* ---- the code's window computation is the Spec's ---------------------------------------------- *)
Lemma wait_len_spec single deadline now :
  0 <= single -> snd (wait_len single deadline now) = spec_wait single deadline now.
Proof.
  intros Hs. unfold wait_len, spec_wait. destruct deadline as [d|]; [|reflexivity].
  destruct (now + single <? d) eqn:E; cbn [snd]; lia.
Qed.

Lemma wait_len_kind single deadline now :
  fst (wait_len single deadline now) = true <->
  (match deadline with None => True | Some d => now + single < d end).
Proof.
  unfold wait_len. destruct deadline as [d|]; [|cbn; tauto].
  destruct (now + single <? d) eqn:E; cbn [fst]; split; intros; try lia; try discriminate; reflexivity.
Qed.

Lemma wait_len_nonneg single deadline now : 0 <= single -> 0 <= snd (wait_len single deadline now).
Proof. intros H. rewrite wait_len_spec by assumption. unfold spec_wait. destruct deadline; lia. Qed.

Lemma wait_len_deadline single d now : now <= d -> now + snd (wait_len single (Some d) now) <= d.
Proof. intros H. unfold wait_len. destruct (now + single <? d) eqn:E; cbn [snd]; lia. Qed.

(* ---- shape of the trace: every wait is the Spec's, first window then P2* ------------------------ *)
Fixpoint check_waits (deadline : option Z) (win next : Z) (tr : list ev) : Prop :=
  match tr with
  | [] => True
  | EvW w now :: rest => w = spec_wait win deadline now /\ check_waits deadline next next rest
  | _ :: rest => check_waits deadline win next rest
  end.

Lemma check_waits_cb deadline win next (b : bool) tr :
  check_waits deadline win next tr -> check_waits deadline win next ((if b then [EvCB] else []) ++ tr).
Proof. destruct b; cbn; auto. Qed.

Lemma wait_loop_waits cfg p2star rsid spr deadline s :
  forall single (star : bool) now, 0 <= single -> 0 <= p2star ->
  check_waits deadline single (if star then single else p2star)
              (wl_trace (wait_loop cfg p2star rsid spr deadline single star now s)).
Proof.
  induction s as [|[a it] rest IH]; intros single star now Hs Hp; cbn [wait_loop].
  - pose proof (wait_len_spec single deadline now Hs) as Hw.
    destruct (wait_len single deadline now) as [is_single w]. cbn [snd] in Hw.
    destruct spr; cbn; auto.
  - pose proof (wait_len_spec single deadline now Hs) as Hw.
    destruct (wait_len single deadline now) as [is_single w]. cbn [snd] in Hw.
    destruct (a <=? now + w) eqn:Ea.
    + destruct it as [f|]; [|cbn; auto].
      destruct (negb (p_valid (parse_response f))); [cbn; auto|].
      destruct (p_svc (parse_response f)) as [rs|]; [|cbn; auto].
      destruct (p_code (parse_response f)) as [code|]; [|cbn; auto].
      destruct (negb (s_sid rs + 64 =? rsid)); [cbn; auto|].
      destruct (negb (p_positive (parse_response f))).
      * destruct (code =? 120); [|cbn; auto].
        specialize (IH (if star then single else p2star) true (Z.max now a)
                       ltac:(destruct star; lia) Hp).
        destruct (wait_loop cfg p2star rsid spr deadline (if star then single else p2star) true (Z.max now a) rest)
          as [[[res t] s'] tr]. cbn [wl_trace snd] in *. split; [exact Hw|].
        apply check_waits_cb. exact IH.
      * destruct spr; cbn; auto.
    + destruct spr; cbn; auto.
Qed.

(* ---- the call never goes beyond the deadline ---------------------------------------------------- *)
Lemma wait_loop_deadline cfg p2star rsid spr d s :
  forall single (star : bool) now, now <= d ->
  wl_time (wait_loop cfg p2star rsid spr (Some d) single star now s) <= d.
Proof.
  induction s as [|[a it] rest IH]; intros single star now Hn; cbn [wait_loop].
  - pose proof (wait_len_deadline single d now Hn) as Hw.
    destruct (wait_len single (Some d) now) as [is_single w]. cbn [snd] in Hw. destruct spr; cbn; lia.
  - pose proof (wait_len_deadline single d now Hn) as Hw.
    destruct (wait_len single (Some d) now) as [is_single w]. cbn [snd] in Hw.
    destruct (a <=? now + w) eqn:Ea.
    + assert (Z.max now a <= d) as Hm by lia.
      destruct it as [f|]; [|cbn; lia].
      destruct (negb (p_valid (parse_response f))); [cbn; lia|].
      destruct (p_svc (parse_response f)) as [rs|]; [|cbn; lia].
      destruct (p_code (parse_response f)) as [code|]; [|cbn; lia].
      destruct (negb (s_sid rs + 64 =? rsid)); [cbn; lia|].
      destruct (negb (p_positive (parse_response f))).
      * destruct (code =? 120); [|cbn; lia].
        specialize (IH (if star then single else p2star) true (Z.max now a) Hm).
        destruct (wait_loop cfg p2star rsid spr (Some d) (if star then single else p2star) true (Z.max now a) rest)
          as [[[res t] s'] tr]. cbn in *. exact IH.
      * destruct spr; cbn; lia.
    + destruct spr; cbn; lia.
Qed.

(* ---- timeout exactly when nothing arrives inside the window ------------------------------------- *)
Definition arrives_in (now w : Z) (s : sched) : bool :=
  match s with (a, _) :: _ => a <=? now + w | [] => false end.

Definition kind_of (is_single star : bool) : tkind :=
  if is_single then (if star then TP2Star else TP2) else TGlobal.

Lemma wait_loop_silence cfg p2star rsid spr deadline single star now s :
  arrives_in now (snd (wait_len single deadline now)) s = false ->
  wait_loop cfg p2star rsid spr deadline single star now s =
  let '(is_single, w) := wait_len single deadline now in
  if spr then (COk None, now + w, s, [EvW w now])
  else (CErr ETimeout None, now + w, s, [EvW w now; EvTO (kind_of is_single star)]).
Proof.
  intros H. destruct s as [|[a it] rest]; cbn [wait_loop].
  - destruct (wait_len single deadline now) as [is_single w]. reflexivity.
  - destruct (wait_len single deadline now) as [is_single w]. cbn [arrives_in snd] in H. rewrite H. reflexivity.
Qed.

(* conversely: a timeout result means the window that timed out contained no arrival; stated on the last
   wait of the trace by the structure above.  One step: a frame inside the window is always consumed. *)
Lemma wait_loop_consumes cfg p2star rsid spr deadline single star now a it rest :
  a <= now + snd (wait_len single deadline now) ->
  wl_res (wait_loop cfg p2star rsid spr deadline single star now ((a, it) :: rest)) <> CErr ETimeout None \/
  (exists f rs, it = Frame f /\ p_svc (parse_response f) = Some rs /\ p_code (parse_response f) = Some 120 /\
                p_positive (parse_response f) = false).
Proof.
  intros Ha. cbn [wait_loop]. destruct (wait_len single deadline now) as [is_single w]. cbn [snd] in Ha.
  replace (a <=? now + w) with true by lia.
  destruct it as [f|]; [|left; cbn; discriminate].
  destruct (negb (p_valid (parse_response f))); [left; cbn; discriminate|].
  destruct (p_svc (parse_response f)) as [rs|] eqn:Es; [|left; cbn; discriminate].
  destruct (p_code (parse_response f)) as [code|] eqn:Ec; [|left; cbn; discriminate].
  destruct (negb (s_sid rs + 64 =? rsid)); [left; cbn; discriminate|].
  destruct (negb (p_positive (parse_response f))) eqn:Ep.
  - destruct (code =? 120) eqn:E78; [|left; cbn; discriminate].
    right. exists f, rs. apply Z.eqb_eq in E78. subst code. apply negb_true_iff in Ep. auto.
  - left. destruct spr; cbn; discriminate.
Qed.

(* ---- k pending replies then a final reply, all inside their windows ----------------------------- *)
(* a 'response pending' frame for service s: 7F sid 78 tail *)
Definition pending_frame (s : svc) (tail : bytes) : bytes := 127 :: s_sid s :: 120 :: tail.

(* what the loop does with a final (non-0x78) frame *)
Definition final_result (rsid : Z) (spr : bool) (f : bytes) : cres (option resp) :=
  let r := parse_response f in
  if negb (p_valid r) then CErr EInvalid (Some r)
  else match p_svc r, p_code r with
       | Some rs, Some code =>
         if negb (s_sid rs + 64 =? rsid) then CErr EUnexpected (Some r)
         else if negb (p_positive r) then CErr ENegative (Some r)
         else if spr then COk None else COk (Some r)
       | _, _ => CErr EAssert (Some r)
       end.

Definition is_pending (f : bytes) : bool :=
  let r := parse_response f in
  p_valid r && negb (p_positive r) && match p_code r with Some c => c =? 120 | None => false end.

(* arrivals inside the successive windows: first `win`, afterwards `next` *)
Fixpoint in_windows (deadline : option Z) (win next now : Z) (arr : list Z) : Prop :=
  match arr with
  | [] => True
  | a :: rest => a <= now + spec_wait win deadline now /\ in_windows deadline next next (Z.max now a) rest
  end.

Fixpoint count_cb (tr : list ev) : nat :=
  match tr with [] => O | EvCB :: r => S (count_cb r) | _ :: r => count_cb r end.
Fixpoint count_w (tr : list ev) : nat :=
  match tr with [] => O | EvW _ _ :: r => S (count_w r) | _ :: r => count_w r end.

Lemma count_cb_app a b : count_cb (a ++ b) = (count_cb a + count_cb b)%nat.
Proof. induction a as [|x xs IH]; cbn; [reflexivity|]. destruct x; cbn; rewrite IH; reflexivity. Qed.
Lemma count_w_app a b : count_w (a ++ b) = (count_w a + count_w b)%nat.
Proof. induction a as [|x xs IH]; cbn; [reflexivity|]. destruct x; cbn; rewrite IH; reflexivity. Qed.

Lemma parse_pending s tail : In s services ->
  let r := parse_response (pending_frame s tail) in
  p_valid r = true /\ p_svc r = Some s /\ p_code r = Some 120 /\ p_positive r = false.
Proof.
  intros Hin. destruct (parse_negative s 120 tail Hin) as (A & B & C & D & _). unfold pending_frame. auto.
Qed.

Lemma wait_loop_delivers cfg p2star s spr deadline final :
  In s services -> is_pending final = false -> 0 <= p2star ->
  forall (pend : list (Z * bytes)) af rest single (star : bool) now, 0 <= single ->
  in_windows deadline single (if star then single else p2star) now (map fst pend ++ [af]) ->
  let x := wait_loop cfg p2star (s_sid s + 64) spr deadline single star now
                     (map (fun '(a, tail) => (a, Frame (pending_frame s tail))) pend ++ (af, Frame final) :: rest) in
  wl_res x = final_result (s_sid s + 64) spr final /\
  wl_sched x = rest /\
  count_cb (wl_trace x) = (if has_cb cfg then List.length pend else O) /\
  count_w (wl_trace x) = S (List.length pend).
Proof.
  intros Hin Hfin Hp pend. induction pend as [|[a tail] pend IH]; intros af rest single star now Hs Hw.
  - cbn [map app] in *. cbn [in_windows] in Hw. destruct Hw as [Ha _].
    cbn [wait_loop]. rewrite <- wait_len_spec in Ha by assumption.
    destruct (wait_len single deadline now) as [is_single w]. cbn [snd] in Ha.
    replace (af <=? now + w) with true by lia.
    unfold final_result. unfold is_pending in Hfin.
    assert (forall (A : Type) (u : A) (v : list (Z * item)),
              u = u /\ v = v /\ 0%nat = (if has_cb cfg then 0%nat else 0%nat) /\ 1%nat = 1%nat) as Triv
      by (intros; destruct (has_cb cfg); auto).
    destruct (p_valid (parse_response final)) eqn:Ev; cbn [negb andb] in *; [|cbn; apply Triv].
    destruct (p_svc (parse_response final)) as [rs|]; [|cbn; apply Triv].
    destruct (p_code (parse_response final)) as [code|]; [|cbn; apply Triv].
    destruct (negb (s_sid rs + 64 =? s_sid s + 64)); [cbn; apply Triv|].
    destruct (p_positive (parse_response final)) eqn:Epos; cbn [negb andb] in *.
    + destruct spr; cbn; apply Triv.
    + rewrite Hfin. cbn; apply Triv.
  - cbn [map app fst] in *. cbn [in_windows] in Hw. destruct Hw as [Ha Hw].
    cbn [wait_loop]. rewrite <- wait_len_spec in Ha by assumption.
    destruct (wait_len single deadline now) as [is_single w]. cbn [snd] in Ha.
    replace (a <=? now + w) with true by lia.
    destruct (parse_pending s tail Hin) as (Pv & Ps & Pc & Pp). cbv zeta in Pv, Ps, Pc, Pp.
    rewrite Pv, Ps, Pc, Pp. cbn [negb]. rewrite Z.eqb_refl. cbn [negb]. change (120 =? 120) with true. cbv iota.
    specialize (IH af rest (if star then single else p2star) true (Z.max now a) ltac:(destruct star; lia) Hw).
    cbv zeta in IH.
    destruct (wait_loop cfg p2star (s_sid s + 64) spr deadline (if star then single else p2star) true (Z.max now a)
               (map (fun '(a0, tail0) => (a0, Frame (pending_frame s tail0))) pend ++ (af, Frame final) :: rest))
      as [[[res t] s'] tr].
    cbn [wl_res wl_sched wl_trace fst snd] in *. destruct IH as (I1 & I2 & I3 & I4).
    split; [exact I1|]. split; [exact I2|]. split.
    + cbn [count_cb]. rewrite count_cb_app, I3. destruct (has_cb cfg); cbn; lia.
    + cbn [count_w]. rewrite count_w_app, I4. destruct (has_cb cfg); cbn; lia.
Qed.

(* ---- per-call timeout replaces both P2 and the overall limit ------------------------------------ *)
Definition with_percall (cfg : config) (t : Z) : config :=
  {| ex_neg := ex_neg cfg; ex_inv := ex_inv cfg; ex_unx := ex_unx cfg; tol_pad := tol_pad cfg;
     ign_zero := ign_zero cfg; use_srv := use_srv cfg; std := std cfg; req_to := Some t; p2 := t;
     p2s := p2s cfg; has_cb := has_cb cfg; srv_addr := srv_addr cfg; srv_size := srv_size cfg;
     snap_did := snap_did cfg; ext_size := ext_size cfg; algo := algo cfg; algo_prm := algo_prm cfg; dids := dids cfg; ios := ios cfg |}.
Definition without_server_p2 (st : cstate) : cstate :=
  {| st_p2 := None; st_p2s := st_p2s st; spr_on := spr_on st; spr_wait := spr_wait st; ov := ov st |}.

Lemma wait_loop_cfg_irrelevant cfg cfg' p2star rsid spr deadline s :
  has_cb cfg = has_cb cfg' ->
  forall single (star : bool) now,
  wait_loop cfg p2star rsid spr deadline single star now s = wait_loop cfg' p2star rsid spr deadline single star now s.
Proof.
  intros Hcb. induction s as [|[a it] rest IH]; intros single star now; cbn [wait_loop]; [reflexivity|].
  destruct (wait_len single deadline now) as [is_single w].
  destruct (a <=? now + w); [|reflexivity]. destruct it as [f|]; [|reflexivity].
  destruct (negb (p_valid (parse_response f))); [reflexivity|].
  destruct (p_svc (parse_response f)) as [rs|]; [|reflexivity].
  destruct (p_code (parse_response f)) as [code|]; [|reflexivity].
  destruct (negb (s_sid rs + 64 =? rsid)); [reflexivity|].
  destruct (negb (p_positive (parse_response f))); [|reflexivity].
  destruct (code =? 120); [|reflexivity]. rewrite IH, Hcb. reflexivity.
Qed.

Lemma percall_replaces cfg st r t now s : 0 <= t ->
  send_request cfg st r t now s = send_request (with_percall cfg t) (without_server_p2 st) r (-1) now s.
Proof.
  intros Ht. unfold send_request. destruct (q_svc r) as [sv|]; [|reflexivity].
  replace (t <? 0) with false by lia. change (-1 <? 0) with true. cbv iota.
  cbn [req_to p2 st_p2 without_server_p2 with_percall spr_on spr_wait ov st_p2s p2s]. rewrite Z.min_id.
  destruct (request_payload r (if spr_on st && s_sub sv then Some true else None)); [reflexivity|].
  destruct ((q_spr r || spr_on st && s_sub sv) && negb (spr_on st && match spr_wait st with Some true => true | _ => false end));
    [reflexivity|].
  rewrite (wait_loop_cfg_irrelevant cfg (with_percall cfg t)) by reflexivity. reflexivity.
Qed.

(* ---- send_request: first window and deadline are the Spec's ------------------------------------- *)
Definition eff_p2 (cfg : config) (st : cstate) : Z := match st_p2 st with Some v => v | None => p2 cfg end.
Definition eff_p2s (cfg : config) (st : cstate) : Z := match st_p2s st with Some v => v | None => p2s cfg end.

Lemma send_request_waits cfg st r now s :
  0 <= eff_p2 cfg st -> 0 <= eff_p2s cfg st -> (forall o, req_to cfg = Some o -> 0 <= o) ->
  check_waits (spec_deadline now (req_to cfg)) (first_window (eff_p2 cfg st) (req_to cfg)) (eff_p2s cfg st)
              (wl_trace (send_request cfg st r (-1) now s)).
Proof.
  intros H2 H2s Ho. unfold send_request. destruct (q_svc r) as [sv|]; [|cbn; auto].
  change (-1 <? 0) with true. cbv iota.
  destruct (request_payload r (if spr_on st && s_sub sv then Some true else None)); [cbn; auto|].
  destruct ((q_spr r || spr_on st && s_sub sv) && negb (spr_on st && match spr_wait st with Some true => true | _ => false end));
    [cbn; auto|].
  fold (eff_p2 cfg st). fold (eff_p2s cfg st).
  pose proof (wait_loop_waits cfg (eff_p2s cfg st) (s_sid sv + 64) (q_spr r || spr_on st && s_sub sv)
    (match req_to cfg with Some o => Some (now + o) | None => None end) (flush now s)
    (match req_to cfg with Some o => Z.min o (eff_p2 cfg st) | None => eff_p2 cfg st end) false now) as W.
  cbv iota in W.
  assert (0 <= match req_to cfg with Some o => Z.min o (eff_p2 cfg st) | None => eff_p2 cfg st end) as Hpos.
  { destruct (req_to cfg) as [o|] eqn:Eo; [specialize (Ho o eq_refl); lia|lia]. }
  specialize (W Hpos H2s).
  destruct (wait_loop cfg (eff_p2s cfg st) (s_sid sv + 64) (q_spr r || spr_on st && s_sub sv)
    (match req_to cfg with Some o => Some (now + o) | None => None end)
    (match req_to cfg with Some o => Z.min o (eff_p2 cfg st) | None => eff_p2 cfg st end) false now (flush now s))
    as [[[res t] s'] tr].
  cbn [wl_trace snd] in *. cbn [check_waits]. unfold spec_deadline, first_window.
  destruct (req_to cfg) as [o|]; [rewrite Z.min_comm|]; exact W.
Qed.

Lemma send_request_deadline cfg st r now s o :
  req_to cfg = Some o -> 0 <= o -> wl_time (send_request cfg st r (-1) now s) <= now + o.
Proof.
  intros Eo Ho. unfold send_request. destruct (q_svc r) as [sv|]; [|cbn; lia].
  change (-1 <? 0) with true. cbv iota. rewrite Eo.
  destruct (request_payload r (if spr_on st && s_sub sv then Some true else None)); [cbn; lia|].
  destruct ((q_spr r || spr_on st && s_sub sv) && negb (spr_on st && match spr_wait st with Some true => true | _ => false end));
    [cbn; lia|].
  match goal with |- context [wait_loop ?a ?b ?c ?d (Some ?e) ?f ?g ?h ?i] =>
    pose proof (wait_loop_deadline a b c d e i f g h ltac:(lia)) as W;
    destruct (wait_loop a b c d (Some e) f g h i) as [[[res t] s'] tr] end.
  cbn in *. exact W.
Qed.

(* non-vacuity: a concrete schedule with two pending replies and a positive final reply, default config *)
Definition cfg_default : config :=
  {| ex_neg := true; ex_inv := true; ex_unx := true; tol_pad := true; ign_zero := true; use_srv := true;
     std := 2020; req_to := Some 5000000; p2 := 1000000; p2s := 5000000; has_cb := true;
     srv_addr := None; srv_size := None; snap_did := 2; ext_size := None; algo := 0; algo_prm := -1; dids := []; ios := [] |}.

(* a timeout is reported only for a window that contained no arrival *)
Lemma wait_loop_timeout_sound cfg p2star rsid spr deadline s :
  forall single (star : bool) now,
  let x := wait_loop cfg p2star rsid spr deadline single star now s in
  wl_res x = CErr ETimeout None ->
  exists w nw, In (EvW w nw) (wl_trace x) /\ wl_time x = nw + w /\ arrives_in nw w (wl_sched x) = false.
Proof.
  induction s as [|[a it] rest IH]; intros single star now; cbv zeta; cbn [wait_loop].
  - destruct (wait_len single deadline now) as [is_single w].
    destruct spr; cbn; [discriminate|]. intros _. exists w, now. auto.
  - destruct (wait_len single deadline now) as [is_single w].
    destruct (a <=? now + w) eqn:Ea.
    + destruct it as [f|]; [|cbn; discriminate].
      destruct (negb (p_valid (parse_response f))); [cbn; discriminate|].
      destruct (p_svc (parse_response f)) as [rs|]; [|cbn; discriminate].
      destruct (p_code (parse_response f)) as [code|]; [|cbn; discriminate].
      destruct (negb (s_sid rs + 64 =? rsid)); [cbn; discriminate|].
      destruct (negb (p_positive (parse_response f))).
      * destruct (code =? 120); [|cbn; discriminate].
        specialize (IH (if star then single else p2star) true (Z.max now a)). cbv zeta in IH.
        destruct (wait_loop cfg p2star rsid spr deadline (if star then single else p2star) true (Z.max now a) rest)
          as [[[res t] s'] tr]. cbn [wl_res wl_time wl_sched wl_trace fst snd] in *.
        intros H. destruct (IH H) as (w' & nw & Hin & Ht & Har). exists w', nw. split; [|auto].
        right. apply in_or_app. right. exact Hin.
      * destruct spr; cbn; discriminate.
    + destruct spr; cbn; [discriminate|]. intros _. exists w, now. cbn. rewrite Ea. auto.
Qed.

(* ---- non-vacuity: premises are inhabited, results are non-degenerate (closed by computation) ------------------ *)
(* C05_delivers: two pending replies then the final one, each inside its window (P2 = 1 s, P2* = 5 s, overall 5 s) *)
Example c05_windows : in_windows (Some 5000000) 1000000 5000000 0 [1000; 600000; 4000000].
Proof. cbn. unfold spec_wait. cbn. lia. Qed.
Example c05_late_is_outside : ~ in_windows (Some 5000000) 1000000 5000000 0 [1000; 600000; 5600001].
Proof. cbn. unfold spec_wait. cbn. lia. Qed.
