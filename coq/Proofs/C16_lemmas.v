(* Proofs for C16: for every interleaving of peer, receiver thread and consumer, the frames delivered are a prefix of
   the frames the peer sent - exactly once, in order, nothing invented (including after the peer disconnects); a
   closed connection raises; close() always terminates the receiver thread. *)
From Coq Require Import ZArith List Bool String Lia.
From UDS Require Import Lib.Bytes Lib.ErrM Model.Conn.
Import ListNotations.
Open Scope Z_scope.
Open Scope list_scope.

(* everything the peer sent is, in order: delivered, then queued, then in the thread's hands, then in the socket *)
Definition fifo_inv (c : conn) : Prop :=
  c_delivered c ++ c_queue c ++ inflight c ++ c_sockbuf c = c_sent c.

Lemma thread_step_inv c : c_dgram c = false -> fifo_inv c -> fifo_inv (thread_step c) /\ c_dgram (thread_step c) = false.
Proof.
  intros Hd H. unfold fifo_inv, thread_step, inflight in *. destruct (c_thread c) as [| | |d|] eqn:Et.
  - rewrite Et. auto.
  - destruct (_ || _); cbn; [auto|]. unfold loop_test. destruct (c_exit c); cbn; auto.
  - destruct (c_sockbuf c) as [|f rest] eqn:Es.
    + rewrite Hd. cbn. cbn in H. rewrite app_nil_r in *. auto.
    + cbn. auto.
  - cbn. unfold loop_test. split; [|exact Hd].
    destruct (c_exit c); cbn; rewrite <- H; rewrite <- !app_assoc; reflexivity.
  - rewrite Et. auto.
Qed.

Lemma run_until_dead_inv : forall fuel c, c_dgram c = false -> fifo_inv c ->
  fifo_inv (run_until_dead fuel c) /\ c_dgram (run_until_dead fuel c) = false.
Proof.
  induction fuel as [|k IH]; intros c Hd H; cbn [run_until_dead]; [auto|].
  destruct (c_thread c); auto; destruct (thread_step_inv c Hd H) as [A B]; apply IH; auto.
Qed.

Lemma conn_step_inv c s : c_dgram c = false -> fifo_inv c ->
  fifo_inv (fst (conn_step c s)) /\ c_dgram (fst (conn_step c s)) = false.
Proof.
  intros Hd H. destruct s; cbn [conn_step].
  - destruct (c_thread c) eqn:Et; cbn [fst]; auto; unfold fifo_inv, inflight in *; rewrite Et in H; cbn in *; auto.
  - destruct (c_peer_closed c); cbn [fst]; [auto|]. unfold fifo_inv, inflight in *. cbn. split; [|exact Hd].
    rewrite <- H. rewrite <- !app_assoc. reflexivity.
  - cbn [fst]. unfold fifo_inv, inflight in *. cbn. auto.
  - cbn [fst]. apply thread_step_inv; assumption.
  - destruct (negb (c_opened c)); cbn [fst]; [auto|]. destruct (c_queue c) as [|f rest] eqn:Eq; cbn [fst]; [auto|].
    unfold fifo_inv, inflight in *. cbn. split; [|exact Hd]. rewrite <- H. rewrite Eq. rewrite <- !app_assoc. reflexivity.
  - cbn [fst].
    set (c1 := upd c (c_opened c) true (c_thread c) (c_sockbuf c) (c_peer_closed c) (c_queue c) (c_delivered c) (c_sent c)).
    assert (fifo_inv c1 /\ c_dgram c1 = false) as [I1 D1] by (unfold fifo_inv, inflight in *; cbn; auto).
    destruct (run_until_dead_inv 4 c1 D1 I1) as [I2 D2]. unfold fifo_inv, inflight in *. cbn. auto.
Qed.

Lemma conn_run_inv : forall steps c, c_dgram c = false -> fifo_inv c ->
  fifo_inv (fst (conn_run c steps)) /\ c_dgram (fst (conn_run c steps)) = false.
Proof.
  induction steps as [|s rest IH]; intros c Hd H; cbn [conn_run fst]; [auto|].
  destruct (conn_step_inv c s Hd H) as [A B]. destruct (conn_step c s) as [c1 o]. cbn [fst] in *.
  specialize (IH c1 B A). destruct (conn_run c1 rest) as [c2 os]. cbn [fst] in *. exact IH.
Qed.

(* every reachable state of a connection-oriented socket connection *)
Lemma reachable_fifo steps : fifo_inv (fst (conn_run (conn0 false) steps)).
Proof. apply conn_run_inv; reflexivity. Qed.

(* delivered frames are a prefix of the sent frames: exactly once, in order, unmodified, nothing invented *)
Lemma delivered_prefix steps :
  let c := fst (conn_run (conn0 false) steps) in exists rest, c_sent c = c_delivered c ++ rest.
Proof. cbv zeta. pose proof (reachable_fifo steps) as H. unfold fifo_inv in H. eexists. symmetry. exact H. Qed.

(* the outputs of the consumer are exactly what entered `delivered`, one frame per successful get *)
Lemma get_output c : match snd (conn_step c SGet) with
                     | OFrame f => exists rest, c_queue c = f :: rest /\ c_opened c = true /\ c_delivered (fst (conn_step c SGet)) = c_delivered c ++ [f]
                     | OTimeout => c_queue c = [] /\ c_opened c = true
                     | ORaises => c_opened c = false
                     | ONone => False
                     end.
Proof.
  cbn [conn_step]. destruct (c_opened c) eqn:Eo; cbn [negb]; [|cbn; reflexivity].
  destruct (c_queue c) as [|f rest]; cbn; eauto.
Qed.

(* close() always terminates the receiver thread: once the flag is set, at most three operations remain *)
Lemma step_keeps_exit x : c_exit x = true -> c_exit (thread_step x) = true.
Proof.
  intros Hx. unfold thread_step. destruct (c_thread x); auto; cbn.
  - destruct (_ || _); cbn; auto.
  - destruct (c_sockbuf x); [destruct (c_dgram x)|]; cbn; auto.
Qed.
Lemma from_put x d : c_exit x = true -> c_thread x = TAtPut d -> c_thread (thread_step x) = TDead.
Proof. intros Hx Ht. unfold thread_step. rewrite Ht. cbn. rewrite Hx. reflexivity. Qed.
Lemma from_recv x : c_thread x = TAtRecv -> (exists d, c_thread (thread_step x) = TAtPut d) \/ c_thread (thread_step x) = TDead.
Proof.
  intros Ht. unfold thread_step. rewrite Ht. destruct (c_sockbuf x); [destruct (c_dgram x)|]; cbn; eauto.
Qed.
Lemma from_select x : c_exit x = true -> c_thread x = TAtSelect ->
  c_thread (thread_step x) = TAtRecv \/ c_thread (thread_step x) = TDead.
Proof. intros Hx Ht. unfold thread_step. rewrite Ht. destruct (_ || _); cbn; [auto|]. rewrite Hx. auto. Qed.

(* a decreasing measure: the number of operations the thread can still perform once the flag is set *)
Definition ops_left (x : conn) : nat :=
  match c_thread x with TAtSelect => 3 | TAtRecv => 2 | TAtPut _ => 1 | _ => 0 end.

Lemma ops_left_decreases x : c_exit x = true -> (0 < ops_left x)%nat -> (ops_left (thread_step x) < ops_left x)%nat.
Proof.
  intros Hx Hp. unfold ops_left in *. destruct (c_thread x) eqn:E1; try lia.
  - destruct (from_select x Hx E1) as [A|A]; rewrite A; lia.
  - destruct (from_recv x E1) as [[d A]|A]; rewrite A; lia.
  - rewrite (from_put x d Hx E1). lia.
Qed.

Lemma run_dead_gen : forall fuel x, c_exit x = true -> (ops_left x <= fuel)%nat ->
  c_thread (run_until_dead fuel x) = TDead \/ c_thread (run_until_dead fuel x) = TNotStarted.
Proof.
  induction fuel as [|k IH]; intros x Hx Hm.
  - cbn [run_until_dead]. unfold ops_left in Hm. destruct (c_thread x); auto; lia.
  - assert (ops_left x = match c_thread x with TAtSelect => 3 | TAtRecv => 2 | TAtPut _ => 1 | _ => 0 end)%nat as Eo by reflexivity.
    cbn [run_until_dead]. destruct (c_thread x) eqn:E1; auto;
      (apply IH; [apply step_keeps_exit; exact Hx|]; pose proof (ops_left_decreases x Hx ltac:(lia)) as D; lia).
Qed.

Lemma run_dead x : c_exit x = true -> c_thread (run_until_dead 4 x) = TDead \/ c_thread (run_until_dead 4 x) = TNotStarted.
Proof. intros Hx. apply run_dead_gen; [exact Hx|]. unfold ops_left. destruct (c_thread x); lia. Qed.

Lemma close_terminates c :
  let c' := fst (conn_step c SClose) in
  (c_thread c' = TDead \/ c_thread c' = TNotStarted) /\ c_opened c' = false.
Proof.
  cbv zeta. cbn [conn_step fst]. split; [|reflexivity]. cbn [c_thread upd]. apply run_dead. reflexivity.
Qed.

(* QueueConnection: frames come out in the order they were put, truncated to the MTU; a closed connection raises *)
Lemma qconn_fifo c f : q_opened c = true ->
  qconn_step c QWait = match q_from c with
                       | x :: rest => ({| q_opened := true; q_mtu := q_mtu c; q_from := rest; q_to := q_to c |}, OFrame (truncate (q_mtu c) x))
                       | [] => (c, OTimeout)
                       end /\
  q_from (fst (qconn_step c (QUserPut f))) = q_from c ++ [f].
Proof. intros H. cbn [qconn_step]. rewrite H. cbn. split; reflexivity. Qed.
Lemma qconn_closed_raises c f : q_opened c = false ->
  snd (qconn_step c QWait) = ORaises /\ snd (qconn_step c (QSend f)) = ORaises.
Proof. intros H. cbn [qconn_step]. rewrite H. cbn. auto. Qed.

(* ---- non-vacuity: premises are inhabited, results are non-degenerate (closed by computation) ------------------ *)
(* C16: a reachable state with one frame delivered, one queued, one in the thread's hands and one still in the socket *)
Definition c16_steps : list cstep :=
  [SOpen; SPeerSend [1]; SPeerSend [2]; SPeerSend [3]; SPeerSend [4]; SThread; SThread; SThread; SThread; SThread; SThread; SGet; SThread; SThread].
Example c16_reachable :
  let c := fst (conn_run (conn0 false) c16_steps) in
  c_delivered c = [[1]] /\ c_queue c = [[2]] /\ inflight c = [[3]] /\ c_sockbuf c = [[4]] /\ c_sent c = [[1]; [2]; [3]; [4]].
Proof. vm_compute. repeat split. Qed.
