(* Definitions and tactics shared by the theorems about the real Client.send_request executed on a symbolic clock (Tie_send_*.v):
   what is observed of the model's send_request (outcome, timeout kind, number of callback calls, every wait as (timeout, instant), final
   instant), and the proof script that unfolds the model's receive loop on a schedule of fixed shape. *)
From Coq Require Import ZArith List Bool String Lia ZifyBool.
From UDS Require Import Lib.Bytes Lib.ErrM Lib.PyOps Model.Message Model.Client Model.Services Proofs.Tie_common.
Import ListNotations.
Open Scope Z_scope.

Definition tp_req : req := {| q_svc := svc_by_name "TesterPresent"; q_sub := Some 0; q_spr := false; q_data := None |}.
Definition count_cb (tr : list ev) : Z := Z.of_nat (List.length (filter (fun e => match e with EvCB => true | _ => false end) tr)).
Definition waits (tr : list ev) : list Z := flat_map (fun e => match e with EvW w n => [w; n] | _ => [] end) tr.
Definition to_kind (tr : list ev) : Z :=
  fold_left (fun k e => match e with EvTO x => tkind_code x | _ => k end) tr 0.
Definition obs_sr (x : cres (option resp) * Z * sched * list ev) : list Z :=
  let '(res, t, _, tr) := x in
  (match res with
   | COk None => [0; 0]
   | COk (Some _) => [0; 1]
   | CErr ETimeout _ => [4; to_kind tr]
   | CErr ENegative (Some r) => [5; match p_code r with Some c => c | None => -1 end]
   | CErr EInvalid _ => [6; 0]
   | CErr EUnexpected _ => [7; 0]
   | _ => [99; 0]
   end) ++ [count_cb tr; Z.of_nat (List.length (waits tr)) / 2] ++ waits tr ++ [t].

Definition timing_cb (cfg : config) (T : option Z) (P2 P2S : Z) (cb : bool) : Prop :=
  req_to cfg = T /\ p2 cfg = P2 /\ p2s cfg = P2S /\ has_cb cfg = cb.
Definition timing (cfg : config) (T : option Z) (P2 P2S : Z) : Prop := timing_cb cfg T P2 P2S false.

Ltac eval_frames :=
  repeat match goal with |- context [parse_response ?f] => let e := eval vm_compute in (parse_response f) in change (parse_response f) with e end.
Ltac list_eq := repeat first [ reflexivity | match goal with
   | |- @inr _ _ _ = @inr _ _ _ => apply f_equal
   | |- ret _ = ret _ => apply f_equal
   | |- (_ :: _) = (_ :: _) => apply f_equal2; [lia|] end ].
Ltac sr_setup HT H2 H2s Hcb :=
  unfold send_request, tp_req, set_timing, spr_enter, spr_call;
  let e := eval vm_compute in (svc_by_name "TesterPresent") in change (svc_by_name "TesterPresent") with e;
  cbn [q_svc st_p2 st_p2s st_init spr_on spr_wait ov q_spr s_sub s_sid andb orb negb];
  rewrite ?HT, ?H2, ?H2s; change (-1 <? 0) with true; cbv iota beta;
  cbn [request_payload q_svc q_sub q_spr q_data s_sub s_sid]; unfold pack_B, pack_be; change (256 ^ Z.of_nat 1) with 256;
  change (Z.lor 0 128) with 128;
  cbn [Z.leb Z.ltb Z.compare Pos.compare Pos.compare_cont andb bind ret apply_override app be_enc];
  cbn [flush].
Ltac sr_loop Hcb :=
  cbn [wait_loop]; unfold wait_len; eval_frames;
  cbn [p_valid p_svc p_code p_positive negb s_sid]; rewrite ?Hcb;
  repeat match goal with |- context [Z.pos ?a + Z.pos ?b] => let v := eval vm_compute in (Z.pos a + Z.pos b) in change (Z.pos a + Z.pos b) with v end;
  repeat match goal with |- context [Z.pos ?a =? Z.pos ?b] => let v := eval vm_compute in (Z.pos a =? Z.pos b) in change (Z.pos a =? Z.pos b) with v end;
  cbn [negb app].
Ltac sr_finish := cbn [obs_sr waits to_kind flat_map fold_left app List.length tkind_code p_code];
                  repeat match goal with |- context [count_cb ?l] => let v := eval vm_compute in (count_cb l) in change (count_cb l) with v end;
                  repeat match goal with |- context [Z.of_nat ?n / 2] => let v := eval vm_compute in (Z.of_nat n / 2) in change (Z.of_nat n / 2) with v end;
                  first [ reflexivity | lia | solve [list_eq] ].


Ltac sr_tac HT H2 H2s Hcb :=
  sr_setup HT H2 H2s Hcb;
  repeat match goal with H : ?n < ?a |- context [?a <=? ?n] => replace (a <=? n) with false by lia end;
  repeat (progress (sr_loop Hcb; split_ifs)); sr_finish.
