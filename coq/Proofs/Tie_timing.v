(* What change_session leaves in the client's session timing, as executed (Gen/Fn_Timing.v: the real method, send_request replaced by a
   positive response with symbolic data of every length class; read after the call whether it returned or raised): the server's P2 / P2-star are
   adopted exactly when the call succeeds - well-formed reply AND matching session echo - under an edition that has them and with
   use_server_timing on; otherwise the timing is untouched (C10). *)
From Coq Require Import ZArith List Bool String Lia ZifyBool.
From UDS Require Import Lib.Bytes Lib.ErrM Lib.PyOps Gen.Fn_Timing Model.Message Model.Client Model.Services Proofs.Tie_common Proofs.Tie_simple_common.
Import ListNotations.
Open Scope Z_scope.

Definition timing_of (st : cstate) : list Z :=
  [match st_p2 st with Some v => v | None => -1 end; match st_p2s st with Some v => v | None => -1 end].
(* the model: build the request, interpret the reply, and only on success apply dsc_post *)
Definition timing_after (cfg : config) (sn : Z) (r : resp) : list Z :=
  match (_ <- dsc_make sn ;; dsc_interpret cfg sn r) with
  | inr sd => timing_of (dsc_post cfg sd st_init)
  | inl _ => timing_of st_init
  end.

Ltac t_tac := unfold timing_after, dsc_make, dsc_interpret, dsc_post, timing_of, set_timing, mk_req, validate_int; eval_svc;
              repeat (progress (msimpl; cbn [st_p2 st_p2s st_init andb]; unfold guard; split_ifs)); finish.

Theorem tie_change_session_timing cfg sn d r : std cfg = 2020 -> use_srv cfg = true -> d <> [] -> p_data r = d ->
  fn_change_session_timing sn d = ret (timing_after cfg sn r).
Proof.
  intros Hs Hu Hne Hd. unfold fn_change_session_timing, timing_after, dsc_interpret, dsc_post. rewrite Hd, Hs, Hu.
  change (2013 <=? 2020) with true. change (2006 <? 2020) with true. cases6 d; t_tac.
Qed.
Theorem tie_change_session_timing_2006 cfg sn d r : std cfg = 2006 -> d <> [] -> p_data r = d ->
  fn_change_session_timing_2006 sn d = ret (timing_after cfg sn r).
Proof.
  intros Hs Hne Hd. unfold fn_change_session_timing_2006, timing_after, dsc_interpret, dsc_post. rewrite Hd, Hs.
  change (2013 <=? 2006) with false. change (2006 <? 2006) with false. cases6 d; t_tac.
Qed.
Theorem tie_change_session_timing_unused cfg sn d r : std cfg = 2020 -> use_srv cfg = false -> d <> [] -> p_data r = d ->
  fn_change_session_timing_unused sn d = ret (timing_after cfg sn r).
Proof.
  intros Hs Hu Hne Hd. unfold fn_change_session_timing_unused, timing_after, dsc_interpret, dsc_post. rewrite Hd, Hs, Hu.
  change (2013 <=? 2020) with true. change (2006 <? 2020) with true. cases6 d; t_tac.
Qed.
