(* Proofs for C02 / C11, continued: read_dtc_information responses decoded end to end (rdtci_decode on the whole response payload),
   for every report type with a record layout; the grouping of reportDTCSnapshotIdentification. *)
From Coq Require Import ZArith List Bool String Lia ZifyBool.
From UDS Require Import Lib.Bytes Lib.ErrM Lib.PyOps Model.Message Model.Client Model.Services Model.Helpers
  Model.Svc_Did Model.Svc_Dtc Proofs.Bytes_lemmas Proofs.C17_lemmas Proofs.C02_lemmas Proofs.C02b_lemmas.
Import ListNotations.
Open Scope Z_scope.
Open Scope list_scope.

Lemma csv_24 std_ : 2020 <= std_ -> check_subfunction_valid std_ 24 = inr tt.
Proof. intros H. unfold check_subfunction_valid. cbn [validate_int]. unfold validate_int. cbn [Z.ltb orb bind ret].
  change (existsb (Z.eqb 24) Gen.DtcGroups.gen_dtc_subfunctions) with true. cbn [guard bind ret].
  change (in_group "subfunction2020" 24) with true. replace (std_ <? 2020) with false by lia. reflexivity. Qed.
Lemma csv_25 std_ : 2020 <= std_ -> check_subfunction_valid std_ 25 = inr tt.
Proof. intros H. unfold check_subfunction_valid. unfold validate_int. cbn [Z.ltb orb bind ret].
  change (existsb (Z.eqb 25) Gen.DtcGroups.gen_dtc_subfunctions) with true. cbn [guard bind ret].
  change (in_group "subfunction2020" 25) with true. replace (std_ <? 2020) with false by lia. reflexivity. Qed.

(* reportUserDefMemoryDTCSnapshotRecordByDTCNumber (0x18, 2020 edition): memory selection echo, then as 0x04 *)
Lemma userdef_snapshots_decode_pad cfg a ms dtc st l n :
  2020 <= std cfg -> 0 <= ms < 256 -> 0 <= dtc < 16777216 -> 0 <= st < 256 -> 1 <= snap_did cfg <= 8 -> Forall (wf_snap (pc_of cfg)) l ->
  (n = 0%nat \/ tol_pad cfg = true) ->
  rdtci_decode cfg 24 a ([24; ms] ++ be_enc 3 dtc ++ [st] ++ flat_map (snap_rec (Z.to_nat (snap_did cfg))) l ++ repeat 0 n)
  = inr {| r_echo := 24; r_memsel := ms; r_status_av := -1; r_sev_av := -1; r_format := -1; r_fgid := -1; r_count := 1;
           r_dtcs := [dtc_with (mk_dtc dtc) st 0 (-1) (-1) (flat_map snaps_of l) []] |}.
Proof.
  intros H20 Hm Hd Hs Hz Hw Hn. unfold rdtci_decode. rewrite csv_24 by exact H20. cbn [bind app].
  change (in_group "subfunctions_with_memory_selection" 24) with true.
  change (in_group "response_subfn_dtc_availability_mask_plus_dtc_record" 24) with false.
  change (in_group "response_subfn_dtc_availability_mask_plus_dtc_record_with_severity" 24) with false.
  change (in_group "response_subfn_dtc_plus_fault_counter" 24) with false.
  change (in_group "response_subfn_dtc_plus_sapshot_record" 24) with false.
  change (in_group "response_subfn_number_of_dtc" 24) with false.
  change (in_group "response_sbfn_dtc_status_snapshots_records" 24) with true.
  cbv iota. cbn [orb].
  rewrite be_enc_3. cbn [app List.length].
  replace (Nat.ltb _ 6) with false by (symmetry; apply Nat.ltb_ge; lia).
  rewrite vint_in by lia. cbn [bind].
  set (hdr := [24; ms; (dtc / 65536) mod 256; (dtc / 256) mod 256; dtc mod 256; st]).
  change (24 :: ms :: (dtc / 65536) mod 256 :: (dtc / 256) mod 256 :: dtc mod 256 :: st :: flat_map (snap_rec (Z.to_nat (snap_did cfg))) l ++ repeat 0 n)
    with (hdr ++ flat_map (snap_rec (Z.to_nat (snap_did cfg))) l ++ repeat 0 n).
  change (2 + 4)%nat with (List.length hdr).
  change (snap_did cfg) with (pc_snap (pc_of cfg)).
  rewrite loop_snap_by_dtc_decode_pad; [|exact Hw|rewrite app_length; pose proof (snap_recs_length (pc_of cfg) l Hw); lia|exact Hn].
  cbn [bind ret app]. unfold hdr. cbn [app skipn]. unfold sub3, at_. cbn [firstn nth Nat.add].
  unfold dtc_with, mk_dtc. cbn [d_id d_status]. rewrite <- be_enc_3.
  rewrite be_dec_enc by (change (256 ^ Z.of_nat 3) with 16777216; lia). reflexivity.
Qed.

(* reportUserDefMemoryDTCExtDataRecordByDTCNumber (0x19, 2020 edition): memory selection echo, then as 0x06 *)
Lemma userdef_extdata_decode_pad cfg a ms dtc st size l n :
  2020 <= std cfg -> 0 <= ms < 256 -> 0 <= dtc < 16777216 -> 0 <= st < 256 -> ext_size_of cfg a = inr size -> Forall (wf_ext size) l ->
  (n = 0%nat \/ tol_pad cfg = true) ->
  rdtci_decode cfg 25 a ([25; ms] ++ be_enc 3 dtc ++ [st] ++ flat_map ext_rec l ++ repeat 0 n)
  = inr {| r_echo := 25; r_memsel := ms; r_status_av := -1; r_sev_av := -1; r_format := -1; r_fgid := -1; r_count := 1;
           r_dtcs := [dtc_with (mk_dtc dtc) st 0 (-1) (-1) [] l] |}.
Proof.
  intros H20 Hm Hd Hs Hz Hw Hn. unfold rdtci_decode. rewrite csv_25 by exact H20. cbn [bind app].
  change (in_group "subfunctions_with_memory_selection" 25) with true.
  change (in_group "response_subfn_dtc_availability_mask_plus_dtc_record" 25) with false.
  change (in_group "response_subfn_dtc_availability_mask_plus_dtc_record_with_severity" 25) with false.
  change (in_group "response_subfn_dtc_plus_fault_counter" 25) with false.
  change (in_group "response_subfn_dtc_plus_sapshot_record" 25) with false.
  change (in_group "response_subfn_number_of_dtc" 25) with false.
  change (in_group "response_sbfn_dtc_status_snapshots_records" 25) with false.
  change (in_group "response_sbfn_dtc_status_snapshots_records_record_first" 25) with false.
  change (in_group "response_subfn_mask_record_plus_extdata" 25) with true.
  cbv iota. cbn [orb]. rewrite Hz. cbn [bind].
  rewrite be_enc_3. cbn [app List.length].
  replace (Nat.ltb _ 6) with false by (symmetry; apply Nat.ltb_ge; lia).
  set (hdr := [25; ms; (dtc / 65536) mod 256; (dtc / 256) mod 256; dtc mod 256; st]).
  change (25 :: ms :: (dtc / 65536) mod 256 :: (dtc / 256) mod 256 :: dtc mod 256 :: st :: flat_map ext_rec l ++ repeat 0 n)
    with (hdr ++ flat_map ext_rec l ++ repeat 0 n).
  change (2 + 4)%nat with (List.length hdr).
  rewrite loop_ext_by_dtc_decode_pad; [|exact Hw|rewrite app_length; pose proof (ext_recs_length size l Hw); lia|exact Hn].
  cbn [bind ret app]. unfold hdr. cbn [app skipn]. unfold sub3, at_. cbn [firstn nth Nat.add].
  unfold dtc_with, mk_dtc. cbn [d_id d_status]. rewrite <- be_enc_3.
  rewrite be_dec_enc by (change (256 ^ Z.of_nat 3) with 16777216; lia). reflexivity.
Qed.

Lemma csv_8 std_ : check_subfunction_valid std_ 8 = inr tt.
Proof. unfold check_subfunction_valid. reflexivity. Qed.
Lemma csv_20 std_ : check_subfunction_valid std_ 20 = inr tt.
Proof. unfold check_subfunction_valid. reflexivity. Qed.

(* reportDTCBySeverityMaskRecord (0x08), end to end: availability mask, then any number of severity records, then padding *)
Lemma severity_records_decode cfg a av l n :
  0 <= av < 256 -> Forall wf_rec6 l -> (ign_zero cfg = true -> Forall (fun x => x <> (0, 0, 0, 0)) l) ->
  (n = 0%nat \/ (tol_pad cfg = true /\ ign_zero cfg = true)) ->
  rdtci_decode cfg 8 a ([8; av] ++ flat_map rec6 l ++ repeat 0 n)
  = inr {| r_echo := 8; r_memsel := -1; r_status_av := av; r_sev_av := -1; r_format := -1; r_fgid := -1;
           r_count := Z.of_nat (List.length l); r_dtcs := map dtc6 l |}.
Proof.
  intros Ha Hw Hz Hn. unfold rdtci_decode. rewrite csv_8. cbn [bind app].
  change (in_group "subfunctions_with_memory_selection" 8) with false.
  change (in_group "response_subfn_dtc_availability_mask_plus_dtc_record" 8) with false.
  change (in_group "response_subfn_dtc_availability_mask_plus_dtc_record_with_severity" 8) with true.
  cbv iota. cbn [orb negb]. cbn [List.length].
  replace (Nat.ltb _ 2) with false by (symmetry; apply Nat.ltb_ge; lia).
  change (8 :: av :: flat_map rec6 l ++ repeat 0 n) with ([8; av] ++ flat_map rec6 l ++ repeat 0 n).
  change 2%nat with (List.length [8; av]) at 1.
  rewrite (loop_records6_decode (pc_of cfg) 8 l [8; av] [] n); [|exact Hw|exact Hz|exact Hn|].
  - cbn [bind ret app]. unfold at_. cbn [nth]. rewrite map_length. reflexivity.
  - rewrite app_length, repeat_length. assert (List.length l <= List.length (flat_map rec6 l))%nat.
    { clear. induction l as [|x l IH]; cbn [flat_map List.length]; [lia|]. rewrite app_length, rec6_length. lia. }
    lia.
Qed.

(* reportDTCFaultDetectionCounter (0x14), end to end *)
Lemma fault_counters_decode cfg a l n :
  Forall wf_rec4 l -> (ign_zero cfg = true -> Forall (fun x => x <> (0, 0)) l) ->
  (n = 0%nat \/ (tol_pad cfg = true /\ ign_zero cfg = true)) ->
  rdtci_decode cfg 20 a ([20] ++ recs4 l ++ repeat 0 n)
  = inr {| r_echo := 20; r_memsel := -1; r_status_av := -1; r_sev_av := -1; r_format := -1; r_fgid := -1;
           r_count := Z.of_nat (List.length l); r_dtcs := map dtcf l |}.
Proof.
  intros Hw Hz Hn. unfold rdtci_decode. rewrite csv_20. cbn [bind app].
  change (in_group "subfunctions_with_memory_selection" 20) with false.
  change (in_group "response_subfn_dtc_availability_mask_plus_dtc_record" 20) with false.
  change (in_group "response_subfn_dtc_availability_mask_plus_dtc_record_with_severity" 20) with false.
  change (in_group "response_subfn_dtc_plus_fault_counter" 20) with true.
  cbv iota. cbn [orb].
  change (20 :: recs4 l ++ repeat 0 n) with ([20] ++ recs4 l ++ repeat 0 n).
  change 1%nat with (List.length [20]) at 1.
  rewrite (loop_fault_counters_decode (pc_of cfg) l [20] [] n); [|exact Hw|exact Hz|exact Hn|].
  - cbn [bind ret app]. rewrite map_length. reflexivity.
  - rewrite ?app_length, ?repeat_length. cbn [List.length]. rewrite ?app_length, ?repeat_length.
    assert (List.length l <= List.length (recs4 l))%nat.
    { clear. unfold recs4. induction l as [|x l IH]; cbn [flat_map List.length]; [lia|]. rewrite app_length, rec4_length. lia. }
    lia.
Qed.

Lemma csv_5 std_ : check_subfunction_valid std_ 5 = inr tt.
Proof. unfold check_subfunction_valid. reflexivity. Qed.
Lemma csv_22 std_ : 2020 <= std_ -> check_subfunction_valid std_ 22 = inr tt.
Proof. intros H. unfold check_subfunction_valid. unfold validate_int. cbn [Z.ltb orb bind ret].
  change (existsb (Z.eqb 22) Gen.DtcGroups.gen_dtc_subfunctions) with true. cbn [guard bind ret].
  change (in_group "subfunction2020" 22) with true. replace (std_ <? 2020) with false by lia. reflexivity. Qed.

Lemma srecs_length pc l : Forall (wf_srec pc) l -> (6 * List.length l <= List.length (flat_map (srec (Z.to_nat (pc_snap pc))) l))%nat.
Proof.
  induction l as [|r l IH]; intros Hw; [cbn; lia|]. inversion Hw; subst. cbn [flat_map List.length]. rewrite app_length.
  specialize (IH ltac:(assumption)). destruct r as [[[rn id] stt] dl]. rewrite srec_shape. rewrite app_length. cbn [List.length]. lia.
Qed.

(* reportDTCSnapshotRecordByRecordNumber (0x05), end to end *)
Lemma snapshots_by_record_decode cfg a l n :
  1 <= snap_did cfg <= 8 -> Forall (wf_srec (pc_of cfg)) l -> l <> [] -> (n = 0%nat \/ tol_pad cfg = true) ->
  rdtci_decode cfg 5 a ([5] ++ flat_map (srec (Z.to_nat (snap_did cfg))) l ++ repeat 0 n)
  = inr {| r_echo := 5; r_memsel := -1; r_status_av := -1; r_sev_av := -1; r_format := -1; r_fgid := -1;
           r_count := Z.of_nat (List.length l); r_dtcs := map dtc_of_srec l |}.
Proof.
  intros Hz Hw Hne Hn. unfold rdtci_decode. rewrite csv_5. cbn [bind app].
  change (in_group "subfunctions_with_memory_selection" 5) with false.
  change (in_group "response_subfn_dtc_availability_mask_plus_dtc_record" 5) with false.
  change (in_group "response_subfn_dtc_availability_mask_plus_dtc_record_with_severity" 5) with false.
  change (in_group "response_subfn_dtc_plus_fault_counter" 5) with false.
  change (in_group "response_subfn_dtc_plus_sapshot_record" 5) with false.
  change (in_group "response_subfn_number_of_dtc" 5) with false.
  change (in_group "response_sbfn_dtc_status_snapshots_records" 5) with false.
  change (in_group "response_sbfn_dtc_status_snapshots_records_record_first" 5) with true.
  cbv iota. cbn [orb]. rewrite vint_in by lia. cbn [bind].
  pose proof (srecs_length (pc_of cfg) l Hw) as Hl. change (pc_snap (pc_of cfg)) with (snap_did cfg) in Hl.
  assert (1 <= List.length l)%nat by (destruct l; [congruence|cbn; lia]).
  cbn [List.length]. rewrite app_length, repeat_length.
  replace (Nat.ltb _ 2) with false by (symmetry; apply Nat.ltb_ge; lia).
  change (5 :: flat_map (srec (Z.to_nat (snap_did cfg))) l ++ repeat 0 n) with ([5] ++ flat_map (srec (Z.to_nat (snap_did cfg))) l ++ repeat 0 n).
  change 1%nat with (List.length [5]) at 1.
  change (snap_did cfg) with (pc_snap (pc_of cfg)).
  rewrite loop_snap_by_rec_decode; [|exact Hw|change (pc_snap (pc_of cfg)) with (snap_did cfg); lia|exact Hn].
  cbn [bind ret app]. rewrite map_length. reflexivity.
Qed.

Lemma erecs_length size l : Forall (wf_erec size) l -> (4 * List.length l <= List.length (flat_map erec l))%nat.
Proof.
  induction l as [|r l IH]; intros Hw; [cbn; lia|]. inversion Hw as [|? ? Hx Hl]; subst. cbn [flat_map List.length]. rewrite app_length.
  specialize (IH Hl). destruct r as [[id stt] raw]. assert (List.length (erec (id, stt, raw)) = (4 + List.length raw)%nat) as E by (unfold erec; rewrite !app_length, be_enc_length; reflexivity). lia.
Qed.

(* reportDTCExtDataRecordByRecordNumber (0x16), end to end *)
Lemma extdata_by_record_decode cfg a recnum size l n :
  2020 <= std cfg -> 0 <= recnum <= 239 -> ext_size_of cfg a = inr size -> Forall (wf_erec size) l -> NoDup (map eid l) ->
  (n = 0%nat \/ (tol_pad cfg = true /\ (ign_zero cfg = true \/ (n < size + 4)%nat))) ->
  rdtci_decode cfg 22 a ([22; recnum] ++ flat_map erec l ++ repeat 0 n)
  = inr {| r_echo := 22; r_memsel := -1; r_status_av := -1; r_sev_av := -1; r_format := -1; r_fgid := -1;
           r_count := Z.of_nat (List.length l); r_dtcs := map (dtc_of_erec recnum) l |}.
Proof.
  intros Hstd Hr Hz Hw Hnd Hn. unfold rdtci_decode. rewrite csv_22 by exact Hstd. cbn [bind app].
  change (in_group "subfunctions_with_memory_selection" 22) with false.
  change (in_group "response_subfn_dtc_availability_mask_plus_dtc_record" 22) with false.
  change (in_group "response_subfn_dtc_availability_mask_plus_dtc_record_with_severity" 22) with false.
  change (in_group "response_subfn_dtc_plus_fault_counter" 22) with false.
  change (in_group "response_subfn_dtc_plus_sapshot_record" 22) with false.
  change (in_group "response_subfn_number_of_dtc" 22) with false.
  change (in_group "response_sbfn_dtc_status_snapshots_records" 22) with false.
  change (in_group "response_sbfn_dtc_status_snapshots_records_record_first" 22) with false.
  change (in_group "response_subfn_mask_record_plus_extdata" 22) with false.
  change (in_group "response_subfn_record_number_plus_dtc_mask_plus_extdata" 22) with true.
  cbv iota. cbn [orb]. rewrite Hz. cbn [bind].
  cbn [List.length]. 
  replace (Nat.ltb _ 2) with false by (symmetry; apply Nat.ltb_ge; lia).
  change (at_ (22 :: recnum :: flat_map erec l ++ repeat 0 n) 1) with recnum.
  replace (239 <? recnum) with false by lia.
  change (22 :: recnum :: flat_map erec l ++ repeat 0 n) with ([22; recnum] ++ flat_map erec l ++ repeat 0 n).
  change 2%nat with (List.length [22; recnum]) at 1.
  rewrite loop_ext_by_rec_decode; [|exact Hw|exact Hnd|intros y []|rewrite !app_length; pose proof (erecs_length size l Hw); cbn [List.length]; lia|exact Hn].
  cbn [bind ret app]. rewrite map_length. reflexivity.
Qed.

(* ---- the status-mask family, end to end --------------------------------------------------------------------- *)
Ltac grp name s := let b := eval vm_compute in (in_group name s) in change (in_group name s) with b.
Ltac groups s :=
  grp "subfunctions_with_memory_selection" s;
  grp "response_subfn_dtc_availability_mask_plus_dtc_record" s;
  try grp "response_subfn_dtc_availability_mask_plus_dtc_record_with_severity" s.

Lemma recs4_length l : List.length (recs4 l) = (4 * List.length l)%nat.
Proof. induction l as [|x l IH]; [reflexivity|]. unfold recs4 in *. cbn [flat_map]. rewrite app_length, rec4_length, IH. cbn [List.length]. lia. Qed.

Definition dtc_list_subs : list Z := [2; 10; 11; 12; 13; 14; 15; 19; 21].

Lemma dtc_list_decode_one cfg sub a av l n :
  In sub dtc_list_subs -> Forall wf_rec4 l ->
  ((n = 0%nat /\ (ign_zero cfg = true -> Forall (fun x => x <> (0, 0)) l))
   \/ (tol_pad cfg = true /\ ign_zero cfg = true /\ Forall (fun x => x <> (0, 0)) l)) ->
  rdtci_decode cfg sub a ([sub; av] ++ recs4 l ++ repeat 0 n)
  = inr {| r_echo := sub; r_memsel := -1; r_status_av := av; r_sev_av := -1; r_format := -1; r_fgid := -1;
           r_count := Z.of_nat (List.length l); r_dtcs := map dtc4 l |}.
Proof.
  intros Hin Hw Hn. unfold dtc_list_subs in Hin. cbn [In] in Hin.
  assert (forall s, check_subfunction_valid (std cfg) s = inr tt -> in_group "subfunctions_with_memory_selection" s = false ->
            in_group "response_subfn_dtc_availability_mask_plus_dtc_record" s = true ->
            rdtci_decode cfg s a ([s; av] ++ recs4 l ++ repeat 0 n)
            = inr {| r_echo := s; r_memsel := -1; r_status_av := av; r_sev_av := -1; r_format := -1; r_fgid := -1;
                     r_count := Z.of_nat (List.length l); r_dtcs := map dtc4 l |}) as G.
  { intros s Hc Hm Hg. unfold rdtci_decode. rewrite Hc. cbn [bind app]. rewrite Hm, Hg. cbv iota. cbn [orb negb].
    cbn [List.length]. replace (Nat.ltb _ 2) with false by (symmetry; apply Nat.ltb_ge; lia).
    change (s :: av :: recs4 l ++ repeat 0 n) with ([s; av] ++ recs4 l ++ repeat 0 n).
    change 2%nat with (List.length [s; av]).
    assert (loop_records (S (List.length ([s; av] ++ recs4 l ++ repeat 0 n))) (pc_of cfg) s false ([s; av] ++ recs4 l ++ repeat 0 n) (List.length [s; av]) []
            = inr ([] ++ map dtc4 l)) as L.
    { destruct Hn as [[-> Hz]|(Ht & Hi & Hz)].
      - cbn [repeat]. rewrite app_nil_r. apply loop_records_decode; [exact Hw|exact Hz|rewrite app_length, recs4_length; cbn [List.length]; lia].
      - apply loop_records_tolerant; [exact Hw|exact Hz|exact Ht|exact Hi|rewrite !app_length, recs4_length, repeat_length; cbn [List.length]; lia]. }
    change (List.length ([s; av] ++ recs4 l ++ repeat 0 n)) with (S (S (List.length (recs4 l ++ repeat 0 n)))) in L. rewrite L. cbn [bind ret app at_ nth]. rewrite map_length. reflexivity. }
  repeat (destruct Hin as [<-|Hin]; [apply G; reflexivity|]). destruct Hin.
Qed.

(* ---- reportDTCSnapshotIdentification (0x03): (DTC, snapshot record number)*; one Dtc per identifier, in order of first
   appearance, holding that identifier's record numbers in order of appearance ------------------------------------------- *)
Fixpoint firsts (l : list Z) : list Z :=
  match l with [] => [] | x :: t => x :: filter (fun y => negb (y =? x)) (firsts t) end.
Definition rns (id : Z) (l : list (Z * Z)) : list Z := map snd (filter (fun p => fst p =? id) l).
Definition snapid_dtc (id : Z) (rs : list Z) : dtc := dtc_with (mk_dtc id) 0 0 (-1) (-1) (map SnapNum rs) [].
Definition snapid_spec (l : list (Z * Z)) : list dtc := map (fun id => snapid_dtc id (rns id l)) (firsts (map fst l)).

Definition snapid_step (acc : list dtc) (p : Z * Z) : list dtc :=
  match add_snapnum (fst p) (snd p) acc with
  | Some l => l
  | None => acc ++ [dtc_with (mk_dtc (fst p)) 0 0 (-1) (-1) [SnapNum (snd p)] []]
  end.

Lemma firsts_in x l : In x (firsts l) <-> In x l.
Proof.
  induction l as [|a t IH]; [tauto|]. cbn [firsts In]. rewrite filter_In, IH. destruct (Z.eq_dec a x) as [->|Hne]; [tauto|].
  split; [tauto|]. intros [H|H]; [tauto|]. right. split; [exact H|]. apply negb_true_iff. lia.
Qed.

Lemma firsts_snoc l x : firsts (l ++ [x]) = if existsb (Z.eqb x) l then firsts l else firsts l ++ [x].
Proof.
  induction l as [|a t IH]; [reflexivity|]. cbn [app firsts existsb]. rewrite IH.
  destruct (x =? a) eqn:E.
  - assert (x = a) by lia. subst. cbn [orb]. destruct (existsb (Z.eqb a) t); [reflexivity|].
    rewrite filter_app. cbn [filter]. rewrite Z.eqb_refl. cbn [negb]. rewrite app_nil_r. reflexivity.
  - cbn [orb]. destruct (existsb (Z.eqb x) t); [reflexivity|].
    rewrite filter_app. cbn [filter]. rewrite E. cbn [negb]. reflexivity.
Qed.

Lemma firsts_nodup l : NoDup (firsts l).
Proof.
  induction l as [|a t IH]; [constructor|]. cbn [firsts]. constructor.
  - rewrite filter_In. intros [_ H]. rewrite Z.eqb_refl in H. discriminate.
  - apply NoDup_filter. exact IH.
Qed.

Lemma rns_snoc i l p : rns i (l ++ [p]) = rns i l ++ (if fst p =? i then [snd p] else []).
Proof. unfold rns. rewrite filter_app, map_app. cbn [filter]. destruct (fst p =? i); reflexivity. Qed.

Lemma rns_nil i l : ~ In i (map fst l) -> rns i l = [].
Proof.
  induction l as [|q t IH]; intros H; [reflexivity|]. unfold rns in *. cbn [filter map In] in *.
  destruct (fst q =? i) eqn:E; [exfalso; apply H; left; lia|]. apply IH. tauto.
Qed.

Lemma add_snapnum_none id rn (f : Z -> list Z) F : ~ In id F -> add_snapnum id rn (map (fun i => snapid_dtc i (f i)) F) = None.
Proof.
  induction F as [|a t IH]; intros H; [reflexivity|]. cbn [map add_snapnum]. cbn [snapid_dtc dtc_with mk_dtc d_id].
  replace (a =? id) with false by (cbn [In] in H; lia). rewrite IH by (cbn [In] in H; tauto). reflexivity.
Qed.

Lemma add_snapnum_some id rn (f : Z -> list Z) F : In id F -> NoDup F ->
  add_snapnum id rn (map (fun i => snapid_dtc i (f i)) F)
  = Some (map (fun i => snapid_dtc i (f i ++ (if id =? i then [rn] else []))) F).
Proof.
  induction F as [|a t IH]; intros Hin Hnd; [destruct Hin|]. apply NoDup_cons_iff in Hnd as [Hna Hnd].
  cbn [map add_snapnum]. cbn [snapid_dtc dtc_with mk_dtc d_id d_status d_severity d_funit d_fault d_snaps d_ext].
  destruct (a =? id) eqn:E.
  - assert (a = id) by lia. subst a. rewrite Z.eqb_refl. unfold snapid_dtc at 1 3. rewrite map_app. cbn [map]. unfold dtc_with, mk_dtc. cbn [d_id]. f_equal. f_equal.
    apply map_ext_in. intros i Hi. replace (id =? i) with false by (assert (i <> id) by congruence; lia). rewrite app_nil_r. reflexivity.
  - destruct Hin as [Hin|Hin]; [lia|]. rewrite IH by assumption. replace (id =? a) with false by lia. rewrite app_nil_r. reflexivity.
Qed.

Lemma existsb_mem x l : existsb (Z.eqb x) l = true <-> In x l.
Proof. rewrite existsb_exists. split; [intros (y & Hy & E); assert (x = y) by lia; subst; exact Hy|intros H; exists x; split; [exact H|apply Z.eqb_refl]]. Qed.

Lemma snapid_spec_snoc l p : snapid_spec (l ++ [p]) = snapid_step (snapid_spec l) p.
Proof.
  unfold snapid_spec, snapid_step. rewrite map_app. cbn [map]. rewrite firsts_snoc.
  destruct (existsb (Z.eqb (fst p)) (map fst l)) eqn:E.
  - apply existsb_mem in E. rewrite (add_snapnum_some (fst p) (snd p) (fun i => rns i l)) by (try apply (proj2 (firsts_in _ _)); auto using firsts_nodup).
    apply map_ext. intros i. rewrite rns_snoc. reflexivity.
  - assert (~ In (fst p) (map fst l)) as Hn by (intros H; apply existsb_mem in H; congruence).
    rewrite (add_snapnum_none (fst p) (snd p) (fun i => rns i l)) by (intros H; apply (proj1 (firsts_in _ _)) in H; exact (Hn H)).
    rewrite map_app. cbn [map]. rewrite rns_snoc, Z.eqb_refl, (rns_nil _ _ Hn). cbn [app].
    f_equal. apply map_ext_in. intros i Hi. rewrite rns_snoc.
    replace (fst p =? i) with false by (apply (proj1 (firsts_in _ _)) in Hi; assert (i <> fst p) by congruence; lia). rewrite app_nil_r. reflexivity.
Qed.

Lemma snapid_fold l : fold_left snapid_step l [] = snapid_spec l.
Proof.
  induction l as [|p l IH] using rev_ind; [reflexivity|]. rewrite fold_left_app. cbn [fold_left]. rewrite IH. symmetry. apply snapid_spec_snoc.
Qed.

Lemma loop_pairs_snap_step k pc pre x rest acc :
  wf_rec4 x -> (all_zero (rec4 x) && pc_ign pc = false) ->
  loop_pairs (S k) pc false (pre ++ rec4 x ++ rest) (List.length pre) acc
  = loop_pairs k pc false ((pre ++ rec4 x) ++ rest) (List.length (pre ++ rec4 x)) (snapid_step acc x).
Proof.
  intros Hw Hz. cbn [loop_pairs]. rewrite !app_length, rec4_length.
  replace (Nat.leb _ _) with false by (symmetry; apply Nat.leb_gt; lia).
  replace (Nat.ltb _ _) with false by (symmetry; apply Nat.ltb_ge; lia).
  rewrite skipn_app_exact.
  assert (firstn 4 (rec4 x ++ rest) = rec4 x) as F by (rewrite <- (rec4_length x) at 1; apply firstn_app_exact).
  rewrite F, Hz. destruct (sub3_rec4 x [] Hw) as [E1 E2]. rewrite app_nil_r in E1, E2.
  unfold snapid_step. rewrite E1, E2. rewrite <- app_assoc. reflexivity.
Qed.

Lemma loop_snapid_fold pc l : forall pre acc n fuel,
  Forall wf_rec4 l -> (pc_ign pc = true -> Forall (fun x => x <> (0, 0)) l) ->
  (n = 0%nat \/ (pc_tol pc = true /\ pc_ign pc = true)) ->
  (List.length l + n < fuel)%nat ->
  loop_pairs fuel pc false (pre ++ recs4 l ++ repeat 0 n) (List.length pre) acc = inr (fold_left snapid_step l acc).
Proof.
  induction l as [|x l IH]; intros pre acc n fuel Hw Hz Hn Hf.
  - cbn [recs4 flat_map fold_left app]. destruct Hn as [->|[Ht Hi]].
    + destruct fuel as [|k]; [lia|]. cbn [repeat loop_pairs]. rewrite app_nil_r.
      replace (Nat.leb _ _) with true by (symmetry; apply Nat.leb_le; lia). reflexivity.
    + apply loop_pairs_padding; [cbn in Hf; lia|exact Ht|exact Hi].
  - destruct fuel as [|k]; [cbn in Hf; lia|]. inversion Hw as [|? ? Hx Hl]; subst.
    cbn [recs4 flat_map fold_left]. fold (recs4 l). rewrite <- app_assoc.
    rewrite loop_pairs_snap_step; [|exact Hx|].
    + apply IH; auto; [intros Hi; specialize (Hz Hi); inversion Hz; assumption|cbn in Hf; lia].
    + destruct (pc_ign pc) eqn:Ei; [|apply andb_false_r]. rewrite andb_true_r.
      destruct (all_zero (rec4 x)) eqn:Ea; [|reflexivity].
      apply rec4_all_zero in Ea; [|exact Hx]. specialize (Hz eq_refl). inversion Hz; congruence.
Qed.

Lemma loop_snapshot_identification_decode pc l pre n fuel :
  Forall wf_rec4 l -> (pc_ign pc = true -> Forall (fun x => x <> (0, 0)) l) ->
  (n = 0%nat \/ (pc_tol pc = true /\ pc_ign pc = true)) ->
  (List.length l + n < fuel)%nat ->
  loop_pairs fuel pc false (pre ++ recs4 l ++ repeat 0 n) (List.length pre) [] = inr (snapid_spec l).
Proof. intros. rewrite loop_snapid_fold by assumption. f_equal. apply snapid_fold. Qed.

Example nv_snapid : snapid_spec [(5, 1); (7, 2); (5, 3); (9, 1); (7, 9)]
  = [snapid_dtc 5 [1; 3]; snapid_dtc 7 [2; 9]; snapid_dtc 9 [1]].
Proof. vm_compute. reflexivity. Qed.


Lemma snapshot_identification_decode cfg a l n :
  Forall wf_rec4 l -> (ign_zero cfg = true -> Forall (fun x => x <> (0, 0)) l) ->
  (n = 0%nat \/ (tol_pad cfg = true /\ ign_zero cfg = true)) ->
  rdtci_decode cfg 3 a ([3] ++ recs4 l ++ repeat 0 n)
  = inr {| r_echo := 3; r_memsel := -1; r_status_av := -1; r_sev_av := -1; r_format := -1; r_fgid := -1;
           r_count := Z.of_nat (List.length (snapid_spec l)); r_dtcs := snapid_spec l |}.
Proof.
  intros Hw Hz Hn. unfold rdtci_decode. change (check_subfunction_valid (std cfg) 3) with (@inr err unit tt). cbn [bind app].
  grp "subfunctions_with_memory_selection" 3.
  grp "response_subfn_dtc_availability_mask_plus_dtc_record" 3.
  grp "response_subfn_dtc_availability_mask_plus_dtc_record_with_severity" 3.
  grp "response_subfn_dtc_plus_fault_counter" 3.
  grp "response_subfn_dtc_plus_sapshot_record" 3.
  cbv iota. cbn [orb].
  change (3 :: recs4 l ++ repeat 0 n) with ([3] ++ recs4 l ++ repeat 0 n).
  change 1%nat with (List.length [3]) at 1.
  rewrite loop_snapshot_identification_decode; [|exact Hw|exact Hz|exact Hn|rewrite !app_length, recs4_length, repeat_length; cbn [List.length]; lia].
  reflexivity.
Qed.

(* reportNumberOfDTC... (0x01, 0x07, 0x11, 0x12): availability mask, format identifier, 16-bit count *)
Lemma number_of_dtc_decode cfg sub a av fmt cnt extra :
  In sub [1; 7; 17; 18] -> 0 <= cnt < 65536 ->
  rdtci_decode cfg sub a ([sub; av; fmt] ++ be_enc 2 cnt ++ extra)
  = inr {| r_echo := sub; r_memsel := -1; r_status_av := av; r_sev_av := -1; r_format := fmt; r_fgid := -1;
           r_count := cnt; r_dtcs := [] |}.
Proof.
  intros Hin Hc.
  assert (forall s, check_subfunction_valid (std cfg) s = inr tt ->
            in_group "response_subfn_dtc_availability_mask_plus_dtc_record" s = false ->
            in_group "response_subfn_dtc_availability_mask_plus_dtc_record_with_severity" s = false ->
            in_group "response_subfn_dtc_plus_fault_counter" s = false ->
            in_group "response_subfn_dtc_plus_sapshot_record" s = false ->
            in_group "response_subfn_number_of_dtc" s = true ->
            rdtci_decode cfg s a ([s; av; fmt] ++ be_enc 2 cnt ++ extra)
            = inr {| r_echo := s; r_memsel := -1; r_status_av := av; r_sev_av := -1; r_format := fmt; r_fgid := -1;
                     r_count := cnt; r_dtcs := [] |}) as G.
  { intros s Hc0 H1 H2 H3 H4 H5. unfold rdtci_decode. rewrite Hc0. cbn [bind app]. rewrite H1, H2, H3, H4, H5. cbv iota. cbn [orb].
    cbn [List.length]. rewrite app_length, be_enc_length.
    replace (Nat.ltb _ 5) with false by (symmetry; apply Nat.ltb_ge; lia).
    cbn [ret at_ nth skipn]. rewrite <- (be_enc_length 2 cnt) at 1. rewrite firstn_app_exact.
    rewrite be_dec_enc by (change (256 ^ Z.of_nat 2) with 65536; lia). reflexivity. }
  cbn [In] in Hin. repeat (destruct Hin as [<-|Hin]; [apply G; reflexivity|]). destruct Hin.
Qed.

Lemma csv_2020 std_ s : 2020 <= std_ -> In s [22; 23; 24; 25; 26; 66; 85; 86] -> check_subfunction_valid std_ s = inr tt.
Proof.
  intros H Hin. cbn [In] in Hin.
  repeat (destruct Hin as [<-|Hin]; [unfold check_subfunction_valid, validate_int; cbn [Z.ltb orb bind ret];
    match goal with |- context [existsb ?f ?l] => change (existsb f l) with true end; cbn [guard bind ret];
    match goal with |- context [in_group ?n ?v] => change (in_group n v) with true end;
    replace (std_ <? 2020) with false by lia; reflexivity|]). destruct Hin.
Qed.

Lemma rec6s_length l : (List.length l <= List.length (flat_map rec6 l))%nat.
Proof. induction l as [|x l IH]; cbn [flat_map List.length]; [lia|]. rewrite app_length, rec6_length. lia. Qed.

(* reportDTCBySeverityMaskRecord (0x08) and reportSeverityInformationOfDTC (0x09), end to end *)
Lemma severity_decode cfg sub a av l n :
  In sub [8; 9] -> Forall wf_rec6 l -> (ign_zero cfg = true -> Forall (fun x => x <> (0, 0, 0, 0)) l) ->
  (n = 0%nat \/ (tol_pad cfg = true /\ ign_zero cfg = true)) ->
  rdtci_decode cfg sub a ([sub; av] ++ flat_map rec6 l ++ repeat 0 n)
  = inr {| r_echo := sub; r_memsel := -1; r_status_av := av; r_sev_av := -1; r_format := -1; r_fgid := -1;
           r_count := Z.of_nat (List.length l); r_dtcs := map dtc6 l |}.
Proof.
  intros Hin Hw Hz Hn.
  assert (forall s, check_subfunction_valid (std cfg) s = inr tt -> in_group "subfunctions_with_memory_selection" s = false ->
            in_group "response_subfn_dtc_availability_mask_plus_dtc_record" s = false ->
            in_group "response_subfn_dtc_availability_mask_plus_dtc_record_with_severity" s = true ->
            rdtci_decode cfg s a ([s; av] ++ flat_map rec6 l ++ repeat 0 n)
            = inr {| r_echo := s; r_memsel := -1; r_status_av := av; r_sev_av := -1; r_format := -1; r_fgid := -1;
                     r_count := Z.of_nat (List.length l); r_dtcs := map dtc6 l |}) as G.
  { intros s Hc Hm H1 H2. unfold rdtci_decode. rewrite Hc. cbn [bind app]. rewrite Hm, H1, H2. cbv iota. cbn [orb negb].
    cbn [List.length]. replace (Nat.ltb _ 2) with false by (symmetry; apply Nat.ltb_ge; lia).
    change (s :: av :: flat_map rec6 l ++ repeat 0 n) with ([s; av] ++ flat_map rec6 l ++ repeat 0 n).
    change 2%nat with (List.length [s; av]) at 1.
    rewrite (loop_records6_decode (pc_of cfg) s l [s; av] [] n); [|exact Hw|exact Hz|exact Hn|].
    - cbn [bind ret app]. unfold at_. cbn [nth]. rewrite map_length. reflexivity.
    - rewrite app_length, repeat_length. pose proof (rec6s_length l). lia. }
  cbn [In] in Hin. repeat (destruct Hin as [<-|Hin]; [apply G; reflexivity|]). destruct Hin.
Qed.

(* reportUserDefMemoryDTCByStatusMask (0x17, 2020 edition): memory selection echo, availability mask, (DTC, status)* *)
Lemma userdef_dtc_list_decode cfg a ms av l n :
  2020 <= std cfg -> Forall wf_rec4 l ->
  ((n = 0%nat /\ (ign_zero cfg = true -> Forall (fun x => x <> (0, 0)) l))
   \/ (tol_pad cfg = true /\ ign_zero cfg = true /\ Forall (fun x => x <> (0, 0)) l)) ->
  rdtci_decode cfg 23 a ([23; ms; av] ++ recs4 l ++ repeat 0 n)
  = inr {| r_echo := 23; r_memsel := ms; r_status_av := av; r_sev_av := -1; r_format := -1; r_fgid := -1;
           r_count := Z.of_nat (List.length l); r_dtcs := map dtc4 l |}.
Proof.
  intros H20 Hw Hn. unfold rdtci_decode. rewrite (csv_2020 (std cfg) 23 H20) by (cbn; tauto). cbn [bind app].
  change (in_group "subfunctions_with_memory_selection" 23) with true.
  change (in_group "response_subfn_dtc_availability_mask_plus_dtc_record" 23) with true.
  cbv iota. cbn [orb negb]. cbn [List.length]. replace (Nat.ltb _ 3) with false by (symmetry; apply Nat.ltb_ge; lia).
  change (23 :: ms :: av :: recs4 l ++ repeat 0 n) with ([23; ms; av] ++ recs4 l ++ repeat 0 n).
  assert (loop_records (S (S (S (S (List.length (recs4 l ++ repeat 0 n)))))) (pc_of cfg) 23 false ([23; ms; av] ++ recs4 l ++ repeat 0 n) (List.length [23; ms; av]) []
          = inr ([] ++ map dtc4 l)) as L.
  { destruct Hn as [[-> Hz]|(Ht & Hi & Hz)].
    - cbn [repeat]. rewrite !app_nil_r. apply loop_records_decode; [exact Hw|exact Hz|rewrite recs4_length; lia].
    - apply loop_records_tolerant; [exact Hw|exact Hz|exact Ht|exact Hi|rewrite !app_length, recs4_length, repeat_length; lia]. }
  cbn [List.length] in L. rewrite L. cbn [bind ret app at_ nth]. rewrite map_length. reflexivity.
Qed.

(* reportMirrorMemoryDTCExtDataRecordByDTCNumber (0x10): same layout as 0x06 *)
Lemma mirror_extdata_decode_pad cfg a dtc st size l n :
  0 <= dtc < 16777216 -> 0 <= st < 256 -> ext_size_of cfg a = inr size -> Forall (wf_ext size) l ->
  (n = 0%nat \/ tol_pad cfg = true) ->
  rdtci_decode cfg 16 a ([16] ++ be_enc 3 dtc ++ [st] ++ flat_map ext_rec l ++ repeat 0 n)
  = inr {| r_echo := 16; r_memsel := -1; r_status_av := -1; r_sev_av := -1; r_format := -1; r_fgid := -1; r_count := 1;
           r_dtcs := [dtc_with (mk_dtc dtc) st 0 (-1) (-1) [] l] |}.
Proof.
  intros Hd Hs Hz Hw Hn. unfold rdtci_decode. change (check_subfunction_valid (std cfg) 16) with (@inr err unit tt). cbn [bind app].
  change (in_group "subfunctions_with_memory_selection" 16) with false.
  change (in_group "response_subfn_dtc_availability_mask_plus_dtc_record" 16) with false.
  change (in_group "response_subfn_dtc_availability_mask_plus_dtc_record_with_severity" 16) with false.
  change (in_group "response_subfn_dtc_plus_fault_counter" 16) with false.
  change (in_group "response_subfn_dtc_plus_sapshot_record" 16) with false.
  change (in_group "response_subfn_number_of_dtc" 16) with false.
  change (in_group "response_sbfn_dtc_status_snapshots_records" 16) with false.
  change (in_group "response_sbfn_dtc_status_snapshots_records_record_first" 16) with false.
  change (in_group "response_subfn_mask_record_plus_extdata" 16) with true.
  cbv iota. cbn [orb]. rewrite Hz. cbn [bind].
  rewrite be_enc_3. cbn [app List.length].
  replace (Nat.ltb _ 5) with false by (symmetry; apply Nat.ltb_ge; lia).
  set (hdr := [16; (dtc / 65536) mod 256; (dtc / 256) mod 256; dtc mod 256; st]).
  change (16 :: (dtc / 65536) mod 256 :: (dtc / 256) mod 256 :: dtc mod 256 :: st :: flat_map ext_rec l ++ repeat 0 n)
    with (hdr ++ flat_map ext_rec l ++ repeat 0 n).
  change (1 + 4)%nat with (List.length hdr).
  rewrite loop_ext_by_dtc_decode_pad; [|exact Hw|rewrite app_length; pose proof (ext_recs_length size l Hw); lia|exact Hn].
  cbn [bind ret app]. unfold hdr. cbn [app skipn]. unfold sub3, at_. cbn [firstn nth Nat.add].
  unfold dtc_with, mk_dtc. cbn [d_id d_status]. rewrite <- be_enc_3.
  rewrite be_dec_enc by (change (256 ^ Z.of_nat 3) with 16777216; lia). reflexivity.
Qed.

Lemma rec5s_length l : (List.length l <= List.length (flat_map rec5 l))%nat.
Proof. induction l as [|[[sv id] stt] l IH]; cbn [flat_map List.length]; [lia|]. rewrite app_length. cbn [rec5 List.length]. lia. Qed.

(* reportWWHOBDDTCByMaskRecord (0x42, 2020 edition): functional group, status and severity availability, format, records *)
Lemma wwh_obd_decode cfg a fg sa sva fmt l n :
  2020 <= std cfg -> 0 <= fg <= 254 -> (fmt = 4 \/ fmt = 2) ->
  Forall wf_rec5 l -> (ign_zero cfg = true -> Forall (fun x => x <> (0, 0, 0)) l) ->
  (n = 0%nat \/ (tol_pad cfg = true /\ ign_zero cfg = true)) ->
  rdtci_decode cfg 66 a ([66; fg; sa; sva; fmt] ++ flat_map rec5 l ++ repeat 0 n)
  = inr {| r_echo := 66; r_memsel := -1; r_status_av := sa; r_sev_av := Z.land sva 224; r_format := fmt; r_fgid := fg;
           r_count := Z.of_nat (List.length l); r_dtcs := map dtc5 l |}.
Proof.
  intros H20 Hfg Hfmt Hw Hz Hn. unfold rdtci_decode. rewrite (csv_2020 (std cfg) 66 H20) by (cbn; tauto). cbn [bind app].
  change (in_group "subfunctions_with_memory_selection" 66) with false.
  change (in_group "response_subfn_dtc_availability_mask_plus_dtc_record" 66) with false.
  change (in_group "response_subfn_dtc_availability_mask_plus_dtc_record_with_severity" 66) with false.
  change (in_group "response_subfn_dtc_plus_fault_counter" 66) with false.
  change (in_group "response_subfn_dtc_plus_sapshot_record" 66) with false.
  change (in_group "response_subfn_number_of_dtc" 66) with false.
  change (in_group "response_sbfn_dtc_status_snapshots_records" 66) with false.
  change (in_group "response_sbfn_dtc_status_snapshots_records_record_first" 66) with false.
  change (in_group "response_subfn_mask_record_plus_extdata" 66) with false.
  change (in_group "response_subfn_record_number_plus_dtc_mask_plus_extdata" 66) with false.
  cbv iota. cbn [orb Z.eqb Pos.eqb]. cbn [List.length].
  replace (Nat.ltb _ 5) with false by (symmetry; apply Nat.ltb_ge; lia).
  cbn [at_ nth Nat.sub skipn].
  replace (254 <? fg) with false by lia.
  replace (negb ((fmt =? 4) || (fmt =? 2))) with false by (destruct Hfmt; subst; reflexivity).
  rewrite loop_wwh_decode; [|exact Hw|exact Hz|rewrite app_length, repeat_length; pose proof (rec5s_length l); lia|exact Hn].
  cbn [bind ret app]. rewrite map_length. reflexivity.
Qed.

(* reportWWHOBDDTCWithPermanentStatus (0x55): functional group, status availability, format, records *)
Lemma wwh_obd_permanent_decode cfg a fg sa fmt l n :
  2020 <= std cfg -> 0 <= fg <= 254 -> (fmt = 4 \/ fmt = 2) ->
  Forall wf_rec5 l -> (ign_zero cfg = true -> Forall (fun x => x <> (0, 0, 0)) l) ->
  (n = 0%nat \/ (tol_pad cfg = true /\ ign_zero cfg = true)) ->
  rdtci_decode cfg 85 a ([85; fg; sa; fmt] ++ flat_map rec5 l ++ repeat 0 n)
  = inr {| r_echo := 85; r_memsel := -1; r_status_av := sa; r_sev_av := -1; r_format := fmt; r_fgid := fg;
           r_count := Z.of_nat (List.length l); r_dtcs := map dtc5 l |}.
Proof.
  intros H20 Hfg Hfmt Hw Hz Hn. unfold rdtci_decode. rewrite (csv_2020 (std cfg) 85 H20) by (cbn; tauto). cbn [bind app].
  change (in_group "subfunctions_with_memory_selection" 85) with false.
  change (in_group "response_subfn_dtc_availability_mask_plus_dtc_record" 85) with false.
  change (in_group "response_subfn_dtc_availability_mask_plus_dtc_record_with_severity" 85) with false.
  change (in_group "response_subfn_dtc_plus_fault_counter" 85) with false.
  change (in_group "response_subfn_dtc_plus_sapshot_record" 85) with false.
  change (in_group "response_subfn_number_of_dtc" 85) with false.
  change (in_group "response_sbfn_dtc_status_snapshots_records" 85) with false.
  change (in_group "response_sbfn_dtc_status_snapshots_records_record_first" 85) with false.
  change (in_group "response_subfn_mask_record_plus_extdata" 85) with false.
  change (in_group "response_subfn_record_number_plus_dtc_mask_plus_extdata" 85) with false.
  cbv iota. cbn [orb Z.eqb Pos.eqb]. cbn [List.length].
  replace (Nat.ltb _ 4) with false by (symmetry; apply Nat.ltb_ge; lia).
  cbn [at_ nth Nat.sub skipn].
  replace (254 <? fg) with false by lia.
  replace (negb ((fmt =? 4) || (fmt =? 2))) with false by (destruct Hfmt; subst; reflexivity).
  rewrite loop_wwh_decode; [|exact Hw|exact Hz|rewrite app_length, repeat_length; pose proof (rec5s_length l); lia|exact Hn].
  cbn [bind ret app]. rewrite map_length. reflexivity.
Qed.

Lemma snapid_spec_groups l :
  snapid_spec l = map (fun id => snapid_dtc id (map snd (filter (fun p => fst p =? id) l))) (firsts (map fst l))
  /\ NoDup (firsts (map fst l)) /\ (forall x, In x (firsts (map fst l)) <-> In x (map fst l)).
Proof. split; [reflexivity|]. split; [apply firsts_nodup|]. intros x. apply firsts_in. Qed.

(* ---- C11 shape: with the tolerance on, n trailing zero bytes after a whole response change nothing ----------------------- *)
Lemma dtc_list_padding cfg sub a av l n :
  In sub dtc_list_subs -> Forall wf_rec4 l -> Forall (fun x => x <> (0, 0)) l -> tol_pad cfg = true -> ign_zero cfg = true ->
  rdtci_decode cfg sub a ([sub; av] ++ recs4 l ++ repeat 0 n) = rdtci_decode cfg sub a ([sub; av] ++ recs4 l).
Proof.
  intros Hin Hw Hz Ht Hi. rewrite (dtc_list_decode_one cfg sub a av l n Hin Hw) by (right; auto).
  pose proof (dtc_list_decode_one cfg sub a av l 0 Hin Hw (or_introl (conj eq_refl (fun _ => Hz)))) as H0.
  cbn [repeat] in H0. rewrite app_nil_r in H0. symmetry. exact H0.
Qed.
Lemma severity_padding cfg sub a av l n :
  In sub [8; 9] -> Forall wf_rec6 l -> Forall (fun x => x <> (0, 0, 0, 0)) l -> tol_pad cfg = true -> ign_zero cfg = true ->
  rdtci_decode cfg sub a ([sub; av] ++ flat_map rec6 l ++ repeat 0 n) = rdtci_decode cfg sub a ([sub; av] ++ flat_map rec6 l).
Proof.
  intros Hin Hw Hz Ht Hi. rewrite (severity_decode cfg sub a av l n Hin Hw (fun _ => Hz)) by (right; auto).
  pose proof (severity_decode cfg sub a av l 0 Hin Hw (fun _ => Hz) (or_introl eq_refl)) as H0.
  cbn [repeat] in H0. rewrite app_nil_r in H0. symmetry. exact H0.
Qed.
Lemma fault_counters_padding cfg a l n :
  Forall wf_rec4 l -> Forall (fun x => x <> (0, 0)) l -> tol_pad cfg = true -> ign_zero cfg = true ->
  rdtci_decode cfg 20 a ([20] ++ recs4 l ++ repeat 0 n) = rdtci_decode cfg 20 a ([20] ++ recs4 l).
Proof.
  intros Hw Hz Ht Hi. rewrite (fault_counters_decode cfg a l n Hw (fun _ => Hz)) by (right; auto).
  pose proof (fault_counters_decode cfg a l 0 Hw (fun _ => Hz) (or_introl eq_refl)) as H0.
  cbn [repeat] in H0. rewrite app_nil_r in H0. symmetry. exact H0.
Qed.
Lemma snapshot_identification_padding cfg a l n :
  Forall wf_rec4 l -> Forall (fun x => x <> (0, 0)) l -> tol_pad cfg = true -> ign_zero cfg = true ->
  rdtci_decode cfg 3 a ([3] ++ recs4 l ++ repeat 0 n) = rdtci_decode cfg 3 a ([3] ++ recs4 l).
Proof.
  intros Hw Hz Ht Hi. rewrite (snapshot_identification_decode cfg a l n Hw (fun _ => Hz)) by (right; auto).
  pose proof (snapshot_identification_decode cfg a l 0 Hw (fun _ => Hz) (or_introl eq_refl)) as H0.
  cbn [repeat] in H0. rewrite app_nil_r in H0. symmetry. exact H0.
Qed.
Lemma snapshots_by_record_padding cfg a l n :
  1 <= snap_did cfg <= 8 -> Forall (wf_srec (pc_of cfg)) l -> l <> [] -> tol_pad cfg = true ->
  rdtci_decode cfg 5 a ([5] ++ flat_map (srec (Z.to_nat (snap_did cfg))) l ++ repeat 0 n)
  = rdtci_decode cfg 5 a ([5] ++ flat_map (srec (Z.to_nat (snap_did cfg))) l).
Proof.
  intros Hs Hw Hne Ht. rewrite (snapshots_by_record_decode cfg a l n Hs Hw Hne) by (right; auto).
  pose proof (snapshots_by_record_decode cfg a l 0 Hs Hw Hne (or_introl eq_refl)) as H0.
  cbn [repeat] in H0. rewrite app_nil_r in H0. symmetry. exact H0.
Qed.
Lemma wwh_obd_padding cfg a fg sa sva fmt l n :
  2020 <= std cfg -> 0 <= fg <= 254 -> (fmt = 4 \/ fmt = 2) -> Forall wf_rec5 l -> Forall (fun x => x <> (0, 0, 0)) l ->
  tol_pad cfg = true -> ign_zero cfg = true ->
  rdtci_decode cfg 66 a ([66; fg; sa; sva; fmt] ++ flat_map rec5 l ++ repeat 0 n) = rdtci_decode cfg 66 a ([66; fg; sa; sva; fmt] ++ flat_map rec5 l).
Proof.
  intros H20 Hfg Hfmt Hw Hz Ht Hi. rewrite (wwh_obd_decode cfg a fg sa sva fmt l n H20 Hfg Hfmt Hw (fun _ => Hz)) by (right; auto).
  pose proof (wwh_obd_decode cfg a fg sa sva fmt l 0 H20 Hfg Hfmt Hw (fun _ => Hz) (or_introl eq_refl)) as H0.
  cbn [repeat] in H0. rewrite app_nil_r in H0. symmetry. exact H0.
Qed.
Lemma extdata_by_record_padding cfg a recnum size l n :
  2020 <= std cfg -> 0 <= recnum <= 239 -> ext_size_of cfg a = inr size -> Forall (wf_erec size) l -> NoDup (map eid l) ->
  tol_pad cfg = true -> (ign_zero cfg = true \/ (n < size + 4)%nat) ->
  rdtci_decode cfg 22 a ([22; recnum] ++ flat_map erec l ++ repeat 0 n) = rdtci_decode cfg 22 a ([22; recnum] ++ flat_map erec l).
Proof.
  intros H20 Hr Hs Hw Hnd Ht Hi. rewrite (extdata_by_record_decode cfg a recnum size l n H20 Hr Hs Hw Hnd) by (right; auto).
  pose proof (extdata_by_record_decode cfg a recnum size l 0 H20 Hr Hs Hw Hnd (or_introl eq_refl)) as H0.
  cbn [repeat] in H0. rewrite app_nil_r in H0. symmetry. exact H0.
Qed.
