(* ... and with a reception queue that is flushed: frames that arrived before the call are discarded by the one empty_rxqueue() that
   precedes the one send(), and are never taken for the answer - for every instant of every frame, no hypothesis (C15). *)
From Coq Require Import ZArith List Bool String Lia ZifyBool.
From UDS Require Import Lib.Bytes Lib.ErrM Lib.PyOps Gen.Fn_SendRequest Model.Message Model.Client Model.Services Proofs.Tie_common Proofs.Tie_send_common.
Import ListNotations.
Open Scope Z_scope.

(* the calls on the connection before the first wait (1 = empty_rxqueue, 2 = send) and the frame sent *)
Fixpoint before_wait (tr : list ev) : list Z :=
  match tr with
  | EvF :: t => 1 :: before_wait t
  | EvS _ :: t => 2 :: before_wait t
  | _ => []
  end.
Definition sent_frame (tr : list ev) : bytes :=
  match filter (fun e => match e with EvS _ => true | _ => false end) tr with EvS p :: _ => p | _ => [] end.
Definition obs_full (x : cres (option resp) * Z * sched * list ev) : list Z :=
  let '(_, _, _, tr) := x in
  obs_sr x ++ [Z.of_nat (List.length (before_wait tr))] ++ before_wait tr ++ enc_bytes (sent_frame tr).

Ltac full_finish := cbn [obs_full obs_sr waits to_kind flat_map fold_left app List.length tkind_code p_code before_wait sent_frame filter enc_bytes];
                  repeat match goal with |- context [count_cb ?l] => let v := eval vm_compute in (count_cb l) in change (count_cb l) with v end;
                  repeat match goal with |- context [Z.of_nat ?n / 2] => let v := eval vm_compute in (Z.of_nat n / 2) in change (Z.of_nat n / 2) with v end;
                  repeat match goal with |- context [Z.of_nat ?n] => let v := eval vm_compute in (Z.of_nat n) in change (Z.of_nat n) with v end;
                  repeat match goal with |- context [Z.pos ?a mod 256] => let v := eval vm_compute in (Z.pos a mod 256) in change (Z.pos a mod 256) with v end;
                  change (0 mod 256) with 0;
                  first [ reflexivity | lia | solve [list_eq] ].
Ltac flush_tac HT H2 H2s Hcb := sr_setup HT H2 H2s Hcb; repeat (progress (sr_loop Hcb; cbn [flush]; split_ifs)); full_finish.

Theorem tie_send_request_flush_P cfg T P2 P2S now a1 : timing cfg (Some T) P2 P2S ->
  fn_send_request_flush_P T P2 P2S now a1 = ret (obs_full (send_request cfg st_init tp_req (-1) now [(a1, Frame [126; 0])])).
Proof. intros (HT & H2 & H2s & Hcb). unfold fn_send_request_flush_P. flush_tac HT H2 H2s Hcb. Qed.
Theorem tie_send_request_flush_PP cfg T P2 P2S now a1 a2 : timing cfg (Some T) P2 P2S ->
  fn_send_request_flush_PP T P2 P2S now a1 a2 = ret (obs_full (send_request cfg st_init tp_req (-1) now [(a1, Frame [126; 0]); (a2, Frame [126; 0])])).
Proof. intros (HT & H2 & H2s & Hcb). unfold fn_send_request_flush_PP. flush_tac HT H2 H2s Hcb. Qed.
Theorem tie_send_request_flush_WP cfg T P2 P2S now a1 a2 : timing cfg (Some T) P2 P2S ->
  fn_send_request_flush_WP T P2 P2S now a1 a2 = ret (obs_full (send_request cfg st_init tp_req (-1) now [(a1, Frame [127; 62; 120]); (a2, Frame [126; 0])])).
Proof. intros (HT & H2 & H2s & Hcb). unfold fn_send_request_flush_WP. flush_tac HT H2 H2s Hcb. Qed.
Theorem tie_send_request_flush_NP cfg T P2 P2S now a1 a2 : timing cfg (Some T) P2 P2S ->
  fn_send_request_flush_NP T P2 P2S now a1 a2 = ret (obs_full (send_request cfg st_init tp_req (-1) now [(a1, Frame [127; 62; 34]); (a2, Frame [126; 0])])).
Proof. intros (HT & H2 & H2s & Hcb). unfold fn_send_request_flush_NP. flush_tac HT H2 H2s Hcb. Qed.
