(* request_download / request_upload with explicit 16/8-bit formats (with and without a data format identifier) and dynamically_define_did by
   source DID (one and two entries), as executed up to send_request (Gen/Fn_More2.v), are the model's builders (C01, C07). *)
From Coq Require Import ZArith List Bool String Lia ZifyBool.
From UDS Require Import Lib.Bytes Lib.ErrM Lib.PyOps Gen.Maps Gen.Fn_More2 Model.Message Model.Client Model.Services Model.Helpers Model.MemLoc Model.Svc_Simple
  Model.Svc_Memory Proofs.Tie_common Proofs.Tie_simple_common Proofs.Tie_memory_echo.
Import ListNotations.
Open Scope Z_scope.

Lemma land15 x : 0 <= Z.land x 15 < 16.
Proof. change 15 with (Z.ones 4). rewrite Z.land_ones by lia. lia. Qed.

Ltac rud_tac Ha Hs :=
  unfold payload_of, rud_make, mk_dfi, dfi_byte, client_memloc, apply_server_formats, set_format_if_none, mk_memloc, resolve_alfid, mk_alfid, memloc_wire, addr_bytes,
         size_bytes, nbytes, fit_bytes, alfid_byte;
  rewrite ?Ha, ?Hs; repeat (progress mem_step); mem_norm;
  repeat match goal with |- context [Z.land ?x 15] => lazymatch goal with H : 0 <= Z.land x 15 < 16 |- _ => fail | _ => pose proof (land15 x) end end;
  unfold mk_req_data, mk_req; eval_svc; crunch; cbn [df_comp df_enc] in *; crunch; rewrite ?app_nil_r, <- ?app_assoc; cbn [app]; finish.

Theorem tie_request_download_request cfg a s : no_server_formats cfg ->
  fn_request_download_request a s = payload_of (rud_make cfg false a s (Some 16) (Some 8) None).
Proof. intros (Ha & Hs). unfold fn_request_download_request. rud_tac Ha Hs. Qed.
Theorem tie_request_upload_request cfg a s : no_server_formats cfg ->
  fn_request_upload_request a s = payload_of (rud_make cfg true a s (Some 16) (Some 8) None).
Proof. intros (Ha & Hs). unfold fn_request_upload_request. rud_tac Ha Hs. Qed.
Theorem tie_request_download_dfi_request cfg a s cm en : no_server_formats cfg ->
  fn_request_download_dfi_request a s cm en = payload_of (rud_make cfg false a s (Some 16) (Some 8) (Some (cm, en))).
Proof. intros (Ha & Hs). unfold fn_request_download_dfi_request. rud_tac Ha Hs. Qed.
Theorem tie_request_upload_dfi_request cfg a s cm en : no_server_formats cfg ->
  fn_request_upload_dfi_request a s cm en = payload_of (rud_make cfg true a s (Some 16) (Some 8) (Some (cm, en))).
Proof. intros (Ha & Hs). unfold fn_request_upload_dfi_request. rud_tac Ha Hs. Qed.

Ltac def_tac := unfold payload_of, dddi_define_make, bydid_ok, mk_req, validate_int; cbn [forallb mapM List.length Nat.eqb negb List.concat app]; eval_svc;
                crunch; cbn [forallb mapM List.concat app andb] in *; crunch; rewrite ?app_nil_r, <- ?app_assoc; cbn [app]; finish.

Theorem tie_define_by_did_1_request cfg did src pos size :
  fn_define_by_did_1_request did src pos size = payload_of (dddi_define_make cfg did (DefByDid [(src, pos, size)])).
Proof. unfold fn_define_by_did_1_request. def_tac. Qed.
Theorem tie_define_by_did_2_request cfg did src pos size src2 pos2 size2 :
  fn_define_by_did_2_request did src pos size src2 pos2 size2 = payload_of (dddi_define_make cfg did (DefByDid [(src, pos, size); (src2, pos2, size2)])).
Proof. unfold fn_define_by_did_2_request. def_tac. Qed.
