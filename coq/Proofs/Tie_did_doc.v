(* read_data_by_identifier([0xF190, 0x0102]) against the configured table, executed on a positive response carrying ANY 1..8 data bytes
   (Gen/Fn_Did.v: ReadDataByIdentifier.interpret_response with its loop over the DIDs of the response, the zero-padding rule, the codec
   lookup, then the client's checks): every path ends in the decoded values or in a documented exception class (C04). *)
From Coq Require Import ZArith List Bool String Lia ZifyBool.
From UDS Require Import Lib.Bytes Lib.ErrM Lib.PyOps Gen.Fn_DidInt Proofs.Tie_common Proofs.Tie_simple_doc.
Import ListNotations.
Open Scope Z_scope.

Theorem doc_rdbi d : d <> [] -> (List.length d < 9)%nat -> documented (fn_rdbi_interpret d).
Proof.
  intros Hne Hl. unfold fn_rdbi_interpret.
  destruct d as [|d0 [|d1 [|d2 [|d3 [|d4 [|d5 [|d6 [|d7 [|d8 rest]]]]]]]]]; [congruence| | | | | | | | |cbn in Hl; lia]; doc_tac.
Qed.
