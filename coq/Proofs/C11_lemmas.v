(* Proofs for C11, continued: the exception clause (tolerance on, ignore_all_zero_dtc off: every whole all-zero record among the padding
   is a genuine record) for the four record shapes, and the padding rule of read_memory_by_address and io_control. *)
From Coq Require Import ZArith List Bool String Lia ZifyBool Arith.
From UDS Require Import Lib.Bytes Lib.ErrM Lib.PyOps Model.Message Model.Client Model.Services Model.Helpers Model.MemLoc Model.Svc_Simple
  Model.Svc_Memory Model.Svc_Did Model.Svc_Dtc Proofs.Bytes_lemmas Proofs.C17_lemmas Proofs.C02_lemmas Proofs.C02b_lemmas Proofs.C02c_lemmas.
Import ListNotations.
Open Scope Z_scope.
Open Scope list_scope.

(* ---- the exception clause of C11: tolerance on, ignore_all_zero_dtc off: each whole all-zero record among the padding is a genuine
   record (DTC 0, status 0); what is left over (fewer bytes than a record) is padding ------------------------------------------ *)
Definition dtc_zero : dtc := dtc4 (0, 0).

Lemma rec4_zero : rec4 (0, 0) = [0; 0; 0; 0]. Proof. reflexivity. Qed.

Lemma loop_records_padding_kept pc sub pre acc : forall n fuel,
  (n < fuel)%nat -> pc_tol pc = true -> pc_ign pc = false ->
  loop_records fuel pc sub false (pre ++ repeat 0 n) (List.length pre) acc = inr (acc ++ repeat dtc_zero (n / 4)).
Proof.
  intros n. revert pre acc. induction n as [n IH] using lt_wf_ind. intros pre acc fuel Hf Ht Hi.
  destruct fuel as [|k]; [lia|].
  destruct n as [|[|[|[|m]]]].
  - cbn [loop_records repeat Nat.div Nat.divmod fst]. rewrite !app_nil_r. replace (Nat.leb _ _) with true by (symmetry; apply Nat.leb_le; lia). reflexivity.
  - cbn [loop_records]. rewrite app_length. cbn [repeat List.length].
    replace (Nat.leb _ _) with false by (symmetry; apply Nat.leb_gt; lia).
    replace (Nat.ltb _ _) with true by (symmetry; apply Nat.ltb_lt; lia).
    rewrite skipn_app_exact, Ht. cbn [all_zero forallb Z.eqb andb]. change (1 / 4)%nat with 0%nat. cbn [repeat]. rewrite app_nil_r. reflexivity.
  - cbn [loop_records]. rewrite app_length. cbn [repeat List.length].
    replace (Nat.leb _ _) with false by (symmetry; apply Nat.leb_gt; lia).
    replace (Nat.ltb _ _) with true by (symmetry; apply Nat.ltb_lt; lia).
    rewrite skipn_app_exact, Ht. cbn [all_zero forallb Z.eqb andb]. change (2 / 4)%nat with 0%nat. cbn [repeat]. rewrite app_nil_r. reflexivity.
  - cbn [loop_records]. rewrite app_length. cbn [repeat List.length].
    replace (Nat.leb _ _) with false by (symmetry; apply Nat.leb_gt; lia).
    replace (Nat.ltb _ _) with true by (symmetry; apply Nat.ltb_lt; lia).
    rewrite skipn_app_exact, Ht. cbn [all_zero forallb Z.eqb andb]. change (3 / 4)%nat with 0%nat. cbn [repeat]. rewrite app_nil_r. reflexivity.
  - change (repeat 0 (S (S (S (S m))))) with (rec4 (0, 0) ++ repeat 0 m).
    rewrite loop_records_step; [|unfold wf_rec4; cbn; lia|rewrite Hi; apply andb_false_r].
    rewrite IH by (try lia; assumption).
    replace (S (S (S (S m))) / 4)%nat with (S (m / 4)) by (change (S (S (S (S m)))) with (1 * 4 + m)%nat; rewrite Nat.div_add_l by lia; reflexivity).
    cbn [repeat]. rewrite <- app_assoc. reflexivity.
Qed.

Lemma loop_records_zero_records_kept pc sub l pre acc n fuel :
  Forall wf_rec4 l -> pc_tol pc = true -> pc_ign pc = false -> (List.length l + n < fuel)%nat ->
  loop_records fuel pc sub false (pre ++ recs4 l ++ repeat 0 n) (List.length pre) acc = inr (acc ++ map dtc4 l ++ repeat dtc_zero (n / 4)).
Proof.
  revert pre acc fuel. induction l as [|x l IH]; intros pre acc fuel Hw Ht Hi Hf.
  - cbn [recs4 flat_map map app]. apply loop_records_padding_kept; [cbn in Hf; lia|exact Ht|exact Hi].
  - destruct fuel as [|k]; [cbn in Hf; lia|]. inversion Hw as [|? ? Hx Hl]; subst.
    cbn [recs4 flat_map]. fold (recs4 l). rewrite <- app_assoc.
    rewrite loop_records_step; [|exact Hx|rewrite Hi; apply andb_false_r].
    rewrite IH; auto; [|cbn in Hf; lia]. cbn [map]. rewrite <- !app_assoc. reflexivity.
Qed.

Example nv_zero_records_kept :
  loop_records 20 {| pc_tol := true; pc_ign := false; pc_snap := 2; pc_dids := [] |} 2 false ([2; 255] ++ recs4 [(1193046, 47)] ++ repeat 0 9) 2 []
  = inr [dtc4 (1193046, 47); dtc_zero; dtc_zero].
Proof. vm_compute. reflexivity. Qed.

(* ... end to end for the status-mask family of read_dtc_information *)
Lemma dtc_list_zero_records_kept cfg sub a av l n :
  In sub dtc_list_subs -> Forall wf_rec4 l -> tol_pad cfg = true -> ign_zero cfg = false ->
  rdtci_decode cfg sub a ([sub; av] ++ recs4 l ++ repeat 0 n)
  = inr {| r_echo := sub; r_memsel := -1; r_status_av := av; r_sev_av := -1; r_format := -1; r_fgid := -1;
           r_count := Z.of_nat (List.length l + n / 4); r_dtcs := map dtc4 l ++ repeat dtc_zero (n / 4) |}.
Proof.
  intros Hin Hw Ht Hi. unfold dtc_list_subs in Hin. cbn [In] in Hin.
  assert (forall s, check_subfunction_valid (std cfg) s = inr tt -> in_group "subfunctions_with_memory_selection" s = false ->
            in_group "response_subfn_dtc_availability_mask_plus_dtc_record" s = true ->
            rdtci_decode cfg s a ([s; av] ++ recs4 l ++ repeat 0 n)
            = inr {| r_echo := s; r_memsel := -1; r_status_av := av; r_sev_av := -1; r_format := -1; r_fgid := -1;
                     r_count := Z.of_nat (List.length l + n / 4); r_dtcs := map dtc4 l ++ repeat dtc_zero (n / 4) |}) as G.
  { intros s Hc Hm Hg. unfold rdtci_decode. rewrite Hc. cbn [bind app]. rewrite Hm, Hg. cbv iota. cbn [orb negb].
    cbn [List.length]. replace (Nat.ltb _ 2) with false by (symmetry; apply Nat.ltb_ge; lia).
    change (s :: av :: recs4 l ++ repeat 0 n) with ([s; av] ++ recs4 l ++ repeat 0 n).
    assert (loop_records (S (S (S (List.length (recs4 l ++ repeat 0 n))))) (pc_of cfg) s false ([s; av] ++ recs4 l ++ repeat 0 n) (List.length [s; av]) []
            = inr ([] ++ map dtc4 l ++ repeat dtc_zero (n / 4))) as L
      by (apply loop_records_zero_records_kept; [exact Hw|exact Ht|exact Hi|rewrite !app_length, recs4_length, repeat_length; lia]).
    cbn [List.length] in L. rewrite L. cbn [bind ret app at_ nth]. rewrite app_length, map_length, repeat_length. reflexivity. }
  repeat (destruct Hin as [<-|Hin]; [apply G; reflexivity|]). destruct Hin.
Qed.

(* ---- the same for the 6-byte severity records, the fault counters and the WWH-OBD records --------------------------------- *)
Definition dtc6_zero : dtc := dtc6 (0, 0, 0, 0).
Definition dtcf_zero : dtc := dtcf (0, 0).
Definition dtc5_zero : dtc := dtc5 (0, 0, 0).

Lemma loop_records6_padding_kept pc sub pre acc : forall n fuel,
  (n < fuel)%nat -> pc_tol pc = true -> pc_ign pc = false ->
  loop_records fuel pc sub true (pre ++ repeat 0 n) (List.length pre) acc = inr (acc ++ repeat dtc6_zero (n / 6)).
Proof.
  intros n. revert pre acc. induction n as [n IH] using lt_wf_ind. intros pre acc fuel Hf Ht Hi.
  destruct fuel as [|k]; [lia|].
  destruct n as [|[|[|[|[|[|m]]]]]].
  - cbn [loop_records repeat Nat.div Nat.divmod fst]. rewrite !app_nil_r. replace (Nat.leb _ _) with true by (symmetry; apply Nat.leb_le; lia). reflexivity.
  - cbn [loop_records]. rewrite app_length. cbn [repeat List.length].
    replace (Nat.leb _ _) with false by (symmetry; apply Nat.leb_gt; lia). replace (Nat.ltb _ _) with true by (symmetry; apply Nat.ltb_lt; lia).
    rewrite skipn_app_exact, Ht. cbn [all_zero forallb Z.eqb andb]. change (1 / 6)%nat with 0%nat. cbn [repeat]. rewrite app_nil_r. reflexivity.
  - cbn [loop_records]. rewrite app_length. cbn [repeat List.length].
    replace (Nat.leb _ _) with false by (symmetry; apply Nat.leb_gt; lia). replace (Nat.ltb _ _) with true by (symmetry; apply Nat.ltb_lt; lia).
    rewrite skipn_app_exact, Ht. cbn [all_zero forallb Z.eqb andb]. change (2 / 6)%nat with 0%nat. cbn [repeat]. rewrite app_nil_r. reflexivity.
  - cbn [loop_records]. rewrite app_length. cbn [repeat List.length].
    replace (Nat.leb _ _) with false by (symmetry; apply Nat.leb_gt; lia). replace (Nat.ltb _ _) with true by (symmetry; apply Nat.ltb_lt; lia).
    rewrite skipn_app_exact, Ht. cbn [all_zero forallb Z.eqb andb]. change (3 / 6)%nat with 0%nat. cbn [repeat]. rewrite app_nil_r. reflexivity.
  - cbn [loop_records]. rewrite app_length. cbn [repeat List.length].
    replace (Nat.leb _ _) with false by (symmetry; apply Nat.leb_gt; lia). replace (Nat.ltb _ _) with true by (symmetry; apply Nat.ltb_lt; lia).
    rewrite skipn_app_exact, Ht. cbn [all_zero forallb Z.eqb andb]. change (4 / 6)%nat with 0%nat. cbn [repeat]. rewrite app_nil_r. reflexivity.
  - cbn [loop_records]. rewrite app_length. cbn [repeat List.length].
    replace (Nat.leb _ _) with false by (symmetry; apply Nat.leb_gt; lia). replace (Nat.ltb _ _) with true by (symmetry; apply Nat.ltb_lt; lia).
    rewrite skipn_app_exact, Ht. cbn [all_zero forallb Z.eqb andb]. change (5 / 6)%nat with 0%nat. cbn [repeat]. rewrite app_nil_r. reflexivity.
  - change (repeat 0 (S (S (S (S (S (S m))))))) with (rec6 (0, 0, 0, 0) ++ repeat 0 m).
    rewrite loop_records6_step; [|unfold wf_rec6; cbn; lia|rewrite Hi; apply andb_false_r].
    rewrite IH by (try lia; assumption).
    replace (S (S (S (S (S (S m))))) / 6)%nat with (S (m / 6)) by (change (S (S (S (S (S (S m)))))) with (1 * 6 + m)%nat; rewrite Nat.div_add_l by lia; reflexivity).
    cbn [repeat]. rewrite <- app_assoc. reflexivity.
Qed.

Lemma loop_records6_zero_records_kept pc sub l pre acc n fuel :
  Forall wf_rec6 l -> pc_tol pc = true -> pc_ign pc = false -> (List.length l + n < fuel)%nat ->
  loop_records fuel pc sub true (pre ++ flat_map rec6 l ++ repeat 0 n) (List.length pre) acc = inr (acc ++ map dtc6 l ++ repeat dtc6_zero (n / 6)).
Proof.
  revert pre acc fuel. induction l as [|x l IH]; intros pre acc fuel Hw Ht Hi Hf.
  - cbn [flat_map map app]. apply loop_records6_padding_kept; [cbn in Hf; lia|exact Ht|exact Hi].
  - destruct fuel as [|k]; [cbn in Hf; lia|]. inversion Hw as [|? ? Hx Hl]; subst.
    cbn [flat_map]. rewrite <- app_assoc.
    rewrite loop_records6_step; [|exact Hx|rewrite Hi; apply andb_false_r].
    rewrite IH; auto; [|cbn in Hf; lia]. cbn [map]. rewrite <- !app_assoc. reflexivity.
Qed.

Lemma loop_pairs_padding_kept pc pre acc : forall n fuel,
  (n < fuel)%nat -> pc_tol pc = true -> pc_ign pc = false ->
  loop_pairs fuel pc true (pre ++ repeat 0 n) (List.length pre) acc = inr (acc ++ repeat dtcf_zero (n / 4)).
Proof.
  intros n. revert pre acc. induction n as [n IH] using lt_wf_ind. intros pre acc fuel Hf Ht Hi.
  destruct fuel as [|k]; [lia|].
  destruct n as [|[|[|[|m]]]].
  - cbn [loop_pairs repeat Nat.div Nat.divmod fst]. rewrite !app_nil_r. replace (Nat.leb _ _) with true by (symmetry; apply Nat.leb_le; lia). reflexivity.
  - cbn [loop_pairs]. rewrite app_length. cbn [repeat List.length].
    replace (Nat.leb _ _) with false by (symmetry; apply Nat.leb_gt; lia). replace (Nat.ltb _ _) with true by (symmetry; apply Nat.ltb_lt; lia).
    rewrite skipn_app_exact, Ht. cbn [all_zero forallb Z.eqb andb]. change (1 / 4)%nat with 0%nat. cbn [repeat]. rewrite app_nil_r. reflexivity.
  - cbn [loop_pairs]. rewrite app_length. cbn [repeat List.length].
    replace (Nat.leb _ _) with false by (symmetry; apply Nat.leb_gt; lia). replace (Nat.ltb _ _) with true by (symmetry; apply Nat.ltb_lt; lia).
    rewrite skipn_app_exact, Ht. cbn [all_zero forallb Z.eqb andb]. change (2 / 4)%nat with 0%nat. cbn [repeat]. rewrite app_nil_r. reflexivity.
  - cbn [loop_pairs]. rewrite app_length. cbn [repeat List.length].
    replace (Nat.leb _ _) with false by (symmetry; apply Nat.leb_gt; lia). replace (Nat.ltb _ _) with true by (symmetry; apply Nat.ltb_lt; lia).
    rewrite skipn_app_exact, Ht. cbn [all_zero forallb Z.eqb andb]. change (3 / 4)%nat with 0%nat. cbn [repeat]. rewrite app_nil_r. reflexivity.
  - change (repeat 0 (S (S (S (S m))))) with (rec4 (0, 0) ++ repeat 0 m).
    rewrite loop_pairs_step; [|unfold wf_rec4; cbn; lia|rewrite Hi; apply andb_false_r].
    rewrite IH by (try lia; assumption).
    replace (S (S (S (S m))) / 4)%nat with (S (m / 4)) by (change (S (S (S (S m)))) with (1 * 4 + m)%nat; rewrite Nat.div_add_l by lia; reflexivity).
    cbn [repeat]. rewrite <- app_assoc. reflexivity.
Qed.

Lemma loop_fault_counters_zero_records_kept pc l pre acc n fuel :
  Forall wf_rec4 l -> pc_tol pc = true -> pc_ign pc = false -> (List.length l + n < fuel)%nat ->
  loop_pairs fuel pc true (pre ++ recs4 l ++ repeat 0 n) (List.length pre) acc = inr (acc ++ map dtcf l ++ repeat dtcf_zero (n / 4)).
Proof.
  revert pre acc fuel. induction l as [|x l IH]; intros pre acc fuel Hw Ht Hi Hf.
  - cbn [recs4 flat_map map app]. apply loop_pairs_padding_kept; [cbn in Hf; lia|exact Ht|exact Hi].
  - destruct fuel as [|k]; [cbn in Hf; lia|]. inversion Hw as [|? ? Hx Hl]; subst.
    cbn [recs4 flat_map]. fold (recs4 l). rewrite <- app_assoc.
    rewrite loop_pairs_step; [|exact Hx|rewrite Hi; apply andb_false_r].
    rewrite IH; auto; [|cbn in Hf; lia]. cbn [map]. rewrite <- !app_assoc. reflexivity.
Qed.

Lemma loop_wwh_padding_kept pc : forall n acc fuel,
  (n < fuel)%nat -> pc_tol pc = true -> pc_ign pc = false ->
  loop_wwh fuel pc (repeat 0 n) acc = inr (acc ++ repeat dtc5_zero (n / 5)).
Proof.
  intros n. induction n as [n IH] using lt_wf_ind. intros acc fuel Hf Ht Hi.
  destruct fuel as [|k]; [lia|].
  destruct n as [|[|[|[|[|m]]]]]; cbn [loop_wwh repeat]; try (rewrite Ht; cbn [all_zero forallb Z.eqb andb]).
  - rewrite app_nil_r. reflexivity.
  - change (1 / 5)%nat with 0%nat. cbn [repeat]. rewrite app_nil_r. reflexivity.
  - change (2 / 5)%nat with 0%nat. cbn [repeat]. rewrite app_nil_r. reflexivity.
  - change (3 / 5)%nat with 0%nat. cbn [repeat]. rewrite app_nil_r. reflexivity.
  - change (4 / 5)%nat with 0%nat. cbn [repeat]. rewrite app_nil_r. reflexivity.
  - cbn [all_zero forallb Z.eqb andb]. rewrite Hi. cbn [andb]. rewrite IH by (try lia; assumption).
    replace (S (S (S (S (S m)))) / 5)%nat with (S (m / 5)) by (change (S (S (S (S (S m))))) with (1 * 5 + m)%nat; rewrite Nat.div_add_l by lia; reflexivity).
    cbn [repeat]. rewrite <- app_assoc. reflexivity.
Qed.

Lemma loop_wwh_zero_records_kept pc : forall l acc fuel n,
  Forall wf_rec5 l -> pc_tol pc = true -> pc_ign pc = false -> (List.length l + n < fuel)%nat ->
  loop_wwh fuel pc (flat_map rec5 l ++ repeat 0 n) acc = inr (acc ++ map dtc5 l ++ repeat dtc5_zero (n / 5)).
Proof.
  induction l as [|[[sv id] stt] l IH]; intros acc fuel n Hw Ht Hi Hf.
  - cbn [flat_map map app]. apply loop_wwh_padding_kept; [cbn in Hf; lia|exact Ht|exact Hi].
  - destruct fuel as [|k]; [cbn in Hf; lia|]. inversion Hw as [|? ? Hx Hl]; subst. destruct Hx as (H1 & H2 & H3).
    cbn [flat_map rec5]. rewrite be_enc_3. cbn [app loop_wwh]. rewrite Hi, andb_false_r.
    rewrite IH; [|exact Hl|exact Ht|exact Hi|cbn in Hf; lia].
    cbn [map dtc5]. rewrite <- !app_assoc. cbn [app].
    assert (be_dec [(id / 65536) mod 256; (id / 256) mod 256; id mod 256] = id) as E
      by (rewrite <- be_enc_3; apply be_dec_enc; change (256 ^ Z.of_nat 3) with 16777216; lia).
    rewrite E. reflexivity.
Qed.

(* read_memory_by_address: the requested number of bytes, then any number of zero bytes when padding is tolerated; refused otherwise *)
Lemma rmba_padding cfg size r out k :
  p_data r = out ++ repeat 0 k -> Z.of_nat (List.length out) = size -> 0 < size ->
  rmba_interpret cfg size r = if (k =? 0)%nat || tol_pad cfg then inr (enc_bytes out) else inl EUnexpected.
Proof.
  intros Hd Hl Hp. unfold rmba_interpret. rewrite Hd.
  destruct out as [|o out']; [cbn in Hl; lia|]. cbn [app]. change (o :: out' ++ repeat 0 k) with ((o :: out') ++ repeat 0 k).
  set (o' := o :: out') in *. rewrite app_length, repeat_length.
  replace (Z.of_nat (List.length o' + k) <? size) with false by lia.
  destruct k as [|k'].
  - cbn [repeat Nat.eqb orb]. rewrite app_nil_r. replace (size <? Z.of_nat (List.length o' + 0)) with false by lia. reflexivity.
  - replace (size <? Z.of_nat (List.length o' + S k')) with true by lia. cbn [Nat.eqb orb].
    replace (Z.to_nat size) with (List.length o') by lia. rewrite skipn_app_exact, firstn_app_exact, zeros_all_zero. cbn [andb].
    destruct (tol_pad cfg); reflexivity.
Qed.

(* io_control: DID echo, control parameter echo, the codec's bytes, then any number of zero bytes when padding is tolerated *)
Lemma io_padding cfg did cp sh v k hm mv ms :
  0 <= did <= 65535 -> fetch_io cfg did = inr (sh, hm, mv, ms) -> check_io_entry (sh, hm, mv, ms) = inr tt ->
  0 <= sh -> Z.of_nat (List.length v) = sh -> 0 <= cp <= 255 ->
  io_interpret cfg did (Some cp) {| p_svc := None; p_code := None; p_name := EmptyString; p_positive := true; p_valid := true; p_reason := RNone;
                                    p_unexpected := false; p_data := be_enc 2 did ++ [cp] ++ v ++ repeat 0 k; p_orig := None |}
  = if (k =? 0)%nat || tol_pad cfg then inr (did :: cp :: enc_bytes v) else inl EInvalid.
Proof.
  intros Hdid Hf Hc Hsh Hl Hcp. unfold io_interpret. cbn [p_data].
  assert (be_enc 2 did = [did / 256; did mod 256]) as Hb.
  { cbn [be_enc app]. replace (did / 256 / 256) with 0 by lia. replace ((did / 256) mod 256) with (did / 256) by lia. reflexivity. }
  rewrite Hb. cbn [app List.length firstn skipn nth].
  replace (be_dec [did / 256; did mod 256]) with did by (rewrite <- Hb; symmetry; apply be_dec_enc; change (256 ^ Z.of_nat 2) with 65536; lia).
  cbn [Nat.leb guard bind ret]. rewrite Hf. cbn [bind]. rewrite Hc. cbn [bind].
  replace (sh <? 0) with false by lia. rewrite app_length, repeat_length.
  replace (Z.to_nat sh) with (List.length v) by lia.
  destruct k as [|k'].
  - cbn [repeat Nat.eqb orb]. rewrite app_nil_r. replace (Nat.ltb (List.length v) (List.length v + 0)) with false by (symmetry; apply Nat.ltb_ge; lia).
    cbn [andb]. rewrite Hl, Z.eqb_refl. cbn [orb guard bind ret]. rewrite !Z.eqb_refl. reflexivity.
  - replace (Nat.ltb (List.length v) (List.length v + S k')) with true by (symmetry; apply Nat.ltb_lt; lia).
    rewrite skipn_app_exact, zeros_all_zero. cbn [andb Nat.eqb orb].
    destruct (tol_pad cfg).
    + rewrite firstn_app_exact. rewrite Hl, Z.eqb_refl. cbn [orb guard bind ret]. rewrite !Z.eqb_refl. reflexivity.
    + rewrite app_length, repeat_length. replace (Z.of_nat (List.length v + S k') =? sh) with false by lia. reflexivity.
Qed.
