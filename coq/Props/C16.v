(* C16 - connections deliver exactly the peer's frames, in order, once; honest timeouts.  Statements only.
   Model/Conn.v is an interleaving model of SocketConnection (receiver thread, consumer, peer) with one step per
   select / recv / queue.put of the real thread; the real thread is replayed step by step against it. *)
From Coq Require Import ZArith List Bool String.
From UDS Require Import Lib.Bytes Lib.ErrM Model.Conn Proofs.C16_lemmas.
Import ListNotations.
Open Scope Z_scope.

(* for EVERY sequence of steps (any interleaving of peer sends, peer disconnect, thread operations, consumer reads,
   open / close / reopen) over a connection-oriented socket:
   delivered ++ queued ++ in the thread's hands ++ still in the socket  =  everything the peer sent *)
Theorem C16_fifo : forall steps, fifo_inv (fst (conn_run (conn0 false) steps)).
Proof. exact reachable_fifo. Qed.
Print Assumptions C16_fifo.

(* hence what wait_frame has delivered is a prefix of what was sent: each frame exactly once, unmodified, in sending
   order, and no frame is invented - including after the peer disconnects *)
Theorem C16_delivered_prefix : forall steps,
  let c := fst (conn_run (conn0 false) steps) in exists rest, c_sent c = c_delivered c ++ rest.
Proof. exact delivered_prefix. Qed.
Print Assumptions C16_delivered_prefix.

(* a read returns the head of the queue, or times out exactly when the queue is empty, or raises when closed *)
Theorem C16_wait_frame : forall c,
  match snd (conn_step c SGet) with
  | OFrame f => exists rest, c_queue c = f :: rest /\ c_opened c = true /\ c_delivered (fst (conn_step c SGet)) = c_delivered c ++ [f]
  | OTimeout => c_queue c = [] /\ c_opened c = true
  | ORaises => c_opened c = false
  | ONone => False
  end.
Proof. exact get_output. Qed.
Print Assumptions C16_wait_frame.

(* close() always terminates the receiver thread (decreasing measure: at most three operations after the flag) *)
Theorem C16_close_terminates : forall c,
  let c' := fst (conn_step c SClose) in
  (c_thread c' = TDead \/ c_thread c' = TNotStarted) /\ c_opened c' = false.
Proof. exact close_terminates. Qed.
Print Assumptions C16_close_terminates.
Theorem C16_thread_progress : forall x, c_exit x = true -> (0 < ops_left x)%nat -> (ops_left (thread_step x) < ops_left x)%nat.
Proof. exact ops_left_decreases. Qed.

(* QueueConnection: FIFO with truncation to the MTU; closed raises *)
Theorem C16_queue_fifo : forall c f, q_opened c = true ->
  qconn_step c QWait = match q_from c with
                       | x :: rest => ({| q_opened := true; q_mtu := q_mtu c; q_from := rest; q_to := q_to c |}, OFrame (truncate (q_mtu c) x))
                       | [] => (c, OTimeout)
                       end /\
  q_from (fst (qconn_step c (QUserPut f))) = q_from c ++ [f].
Proof. exact qconn_fifo. Qed.
Theorem C16_queue_closed_raises : forall c f, q_opened c = false ->
  snd (qconn_step c QWait) = ORaises /\ snd (qconn_step c (QSend f)) = ORaises.
Proof. exact qconn_closed_raises. Qed.
Print Assumptions C16_queue_fifo.

(* C16_partial: "gives up no earlier than its timeout" (wall-clock behaviour of queue.get), OS scheduling fairness and
   kernel socket buffering are runtime behaviours this model cannot exhibit; the harness measures them on real
   socketpairs (lower bound on the elapsed time of timed-out reads; bursts; disconnects). *)
