(* C01 - each request sent is the exact ISO-14229 encoding of the call's arguments.  Statements only.
   The frame theorems are shared with C07 (`agrees`): inside the documented domain the builder's frame is exactly
   sid :: [subfunction (+0x80 iff suppression is on)] ++ parameters in ISO order and width. *)
From Coq Require Import ZArith List Bool String.
From UDS Require Import Lib.Bytes Lib.ErrM Spec.IsoRequests Model.Message Model.Client Model.Services Model.Helpers
  Model.MemLoc Model.Svc_Simple Model.Svc_Memory Model.Svc_Did Model.History Proofs.Bytes_lemmas Proofs.Client_lemmas
  Proofs.C07_lemmas Proofs.C14_lemmas.
Import ListNotations.
Open Scope Z_scope.

(* what reaches the wire for any request object: sid, subfunction with bit 7 set iff suppression is in force (only
   for services that have a subfunction), then the data unchanged *)
Theorem C01_wire : forall st s sub d r,
  In s services -> 0 <= sub < 128 -> mk_request (Some s) (Some sub) false d = inr r ->
  wire_payload st r = inr (apply_override (ov st)
    (if s_sub s then s_sid s :: (if spr_on st then sub + 128 else sub) :: match d with Some x => x | None => [] end
     else s_sid s :: match d with Some x => x | None => [] end)).
Proof. exact wire_payload_spec. Qed.
Print Assumptions C01_wire.

(* that frame, and only it, is handed to the connection *)
Theorem C01_sent_once : forall cfg st mk interp post now s f,
  frame_of st mk = inr f ->
  let '(_, _, _, _, tr) := single_request cfg st mk interp post now s in sent tr = [f].
Proof. exact accepted_sends_frame. Qed.
Print Assumptions C01_sent_once.

(* big-endian fields of every width decode back (the independent decoder of an n-byte field is be_dec) *)
Theorem C01_fields_decode : forall n v, 0 <= v < 256 ^ Z.of_nat n ->
  be_dec (be_enc n v) = v /\ List.length (be_enc n v) = n /\ wf_bytes (be_enc n v).
Proof. intros n v H. split; [apply be_dec_enc; exact H|]. split; [apply be_enc_length|apply be_enc_wf]. Qed.
Print Assumptions C01_fields_decode.

(* per service: see Props/C07.v (C07_change_session ... C07_write_data_by_identifier, C07_memory_requests); two of
   them restated here in the form "in-domain => exact frame" *)
Theorem C01_routine_control : forall st rid ct d, 0 <= rid <= 65535 -> 0 <= ct <= 127 ->
  frame_of st (rc_make rid ct d)
  = inr (apply_override (ov st) (49 :: (if spr_on st then ct + 128 else ct) :: be_enc 2 rid ++ match d with Some x => x | None => [] end)).
Proof.
  intros st rid ct d Hr Hc. pose proof (routine_agrees st rid ct d) as A. unfold iso_routine, in_u in A.
  replace ((0 <=? rid) && (rid <=? 65535) && ((0 <=? ct) && (ct <=? 127))) with true in A
    by (symmetry; apply andb_true_iff; split; apply andb_true_iff; split; apply Z.leb_le; apply Hr || apply Hc).
  destruct A as (sid & hs & Hin & Hf). cbn in Hin.
  repeat (destruct Hin as [Hin|Hin]; [try discriminate; injection Hin as ? ?; subst; exact Hf|]). contradiction.
Qed.
Print Assumptions C01_routine_control.

Theorem C01_security_access : forall st k level data, 1 <= level <= 126 ->
  frame_of st (sa_make k level data)
  = inr (apply_override (ov st)
      (39 :: (let sub := if k then 2 * ((level + 1) / 2) else 2 * ((level + 1) / 2) - 1 in if spr_on st then sub + 128 else sub) :: data)).
Proof.
  intros st k level data Hl. pose proof (security_agrees st k level data) as A. unfold iso_security in A.
  replace ((1 <=? level) && (level <=? 126)) with true in A
    by (symmetry; apply andb_true_iff; split; apply Z.leb_le; apply Hl).
  destruct A as (sid & hs & Hin & Hf). cbn in Hin.
  repeat (destruct Hin as [Hin|Hin]; [try discriminate; injection Hin as ? ?; subst; exact Hf|]). contradiction.
Qed.
Print Assumptions C01_security_access.

(* ---- the code is the model (regenerated each run): Filesize(uncompressed, compressed, width).get_width(), executed on symbolic
   arguments by tools/symtrans.py ---- *)
From UDS Require Import Gen.Fn_Filesize Proofs.Tie_filesize Model.Svc_File.

Theorem C01_code_filesize_width : forall u c w, fn_filesize_width u c w = (f <- mk_filesize u c w ;; ret (fs_width f)).
Proof. exact tie_filesize_width. Qed.
Print Assumptions C01_code_filesize_width.

(* ---- the code is the model (regenerated each run): the request each of these client methods hands to send_request, obtained by
   executing the method on symbolic arguments (tools/symtrans.py, Gen/Fn_SimpleReq.v), is the model's builder: same refusals before
   anything is sent, same bytes ---- *)
From UDS Require Import Gen.Fn_SimpleReq Model.Svc_Simple Proofs.Tie_simple_common Proofs.Tie_simple_req.

Theorem C01_code_ecu_reset_request : forall t, fn_ecu_reset_request t = payload_of (er_make t).
Proof. exact tie_ecu_reset_request. Qed.
Print Assumptions C01_code_ecu_reset_request.
Theorem C01_code_routine_control_request : forall rid ct data, fn_routine_control_request rid ct data = payload_of (rc_make rid ct data).
Proof. exact tie_routine_control_request. Qed.
Print Assumptions C01_code_routine_control_request.
Theorem C01_code_tester_present_request : fn_tester_present_request  = payload_of (mk_req "TesterPresent" (Some 0) None).
Proof. exact tie_tester_present_request. Qed.
Print Assumptions C01_code_tester_present_request.
Theorem C01_code_change_session_request : forall sn, fn_change_session_request sn = payload_of (dsc_make sn).
Proof. exact tie_change_session_request. Qed.
Print Assumptions C01_code_change_session_request.
Theorem C01_code_change_session_2006_request : forall sn, fn_change_session_2006_request sn = payload_of (dsc_make sn).
Proof. exact tie_change_session_2006_request. Qed.
Print Assumptions C01_code_change_session_2006_request.
Theorem C01_code_request_seed_request : forall level data, fn_request_seed_request level data = payload_of (sa_make false level data).
Proof. exact tie_request_seed_request. Qed.
Print Assumptions C01_code_request_seed_request.
Theorem C01_code_send_key_request : forall level key, fn_send_key_request level key = payload_of (sa_make true level key).
Proof. exact tie_send_key_request. Qed.
Print Assumptions C01_code_send_key_request.
Theorem C01_code_access_timing_parameter_request : forall a rc, fn_access_timing_parameter_request a rc = payload_of (atp_make a rc).
Proof. exact tie_access_timing_parameter_request. Qed.
Print Assumptions C01_code_access_timing_parameter_request.
Theorem C01_code_transfer_data_request : forall sq data, fn_transfer_data_request sq data = payload_of (td_make sq data).
Proof. exact tie_transfer_data_request. Qed.
Print Assumptions C01_code_transfer_data_request.
Theorem C01_code_control_dtc_setting_request : forall t data, fn_control_dtc_setting_request t data = payload_of (cds_make t data).
Proof. exact tie_control_dtc_setting_request. Qed.
Print Assumptions C01_code_control_dtc_setting_request.
Theorem C01_code_clear_dtc_request : forall cfg g m, std cfg = 2020 -> fn_clear_dtc_request g m = payload_of (cdi_make cfg g m).
Proof. exact tie_clear_dtc_request. Qed.
Print Assumptions C01_code_clear_dtc_request.

(* ---- the code is the model: read_data_by_identifier with SYMBOLIC identifiers against a configured table (Gen/Fn_Did.v) ---- *)
From UDS Require Import Gen.Fn_Did Model.Svc_Did Proofs.Tie_did.
Theorem C01_code_rdbi_request_1 : forall cfg d1, dids cfg = table -> fn_rdbi_request_1 d1 = payload_of (rdbi_make cfg true [d1]).
Proof. exact tie_rdbi_request_1. Qed.
Print Assumptions C01_code_rdbi_request_1.
Theorem C01_code_rdbi_request_2 : forall cfg d1 d2, dids cfg = table -> fn_rdbi_request_2 d1 d2 = payload_of (rdbi_make cfg true [d1; d2]).
Proof. exact tie_rdbi_request_2. Qed.
Print Assumptions C01_code_rdbi_request_2.
Theorem C01_code_rdbi_request_2_default : forall cfg d1 d2, dids cfg = table_default ->
  fn_rdbi_request_2_default d1 d2 = payload_of (rdbi_make cfg true [d1; d2]).
Proof. exact tie_rdbi_request_2_default. Qed.
Print Assumptions C01_code_rdbi_request_2_default.

(* ---- the code is the model: request_transfer_exit, clear_dynamically_defined_did (Gen/Fn_More.v) ---- *)
From UDS Require Import Gen.Fn_More Model.Svc_Memory Proofs.Tie_more.
Theorem C01_code_request_transfer_exit_request : forall data, fn_request_transfer_exit_request data = payload_of (rte_make data).
Proof. exact tie_request_transfer_exit_request. Qed.
Print Assumptions C01_code_request_transfer_exit_request.
Theorem C01_code_clear_did_request : forall did, fn_clear_did_request did = payload_of (dddi_clear_make (Some did)).
Proof. exact tie_clear_did_request. Qed.
Print Assumptions C01_code_clear_did_request.

(* ---- the code is the model: request_download / request_upload (explicit 16/8-bit formats, with and without a data format identifier),
   dynamically_define_did by source DID with one and two entries (Gen/Fn_More2.v) ---- *)
From UDS Require Import Gen.Fn_More2 Proofs.Tie_memory_echo Proofs.Tie_more2.
Theorem C01_code_request_download_request : forall cfg a s, no_server_formats cfg ->
  fn_request_download_request a s = payload_of (rud_make cfg false a s (Some 16) (Some 8) None).
Proof. exact tie_request_download_request. Qed.
Print Assumptions C01_code_request_download_request.
Theorem C01_code_request_upload_request : forall cfg a s, no_server_formats cfg ->
  fn_request_upload_request a s = payload_of (rud_make cfg true a s (Some 16) (Some 8) None).
Proof. exact tie_request_upload_request. Qed.
Print Assumptions C01_code_request_upload_request.
Theorem C01_code_request_download_dfi_request : forall cfg a s cm en, no_server_formats cfg ->
  fn_request_download_dfi_request a s cm en = payload_of (rud_make cfg false a s (Some 16) (Some 8) (Some (cm, en))).
Proof. exact tie_request_download_dfi_request. Qed.
Print Assumptions C01_code_request_download_dfi_request.
Theorem C01_code_request_upload_dfi_request : forall cfg a s cm en, no_server_formats cfg ->
  fn_request_upload_dfi_request a s cm en = payload_of (rud_make cfg true a s (Some 16) (Some 8) (Some (cm, en))).
Proof. exact tie_request_upload_dfi_request. Qed.
Print Assumptions C01_code_request_upload_dfi_request.
Theorem C01_code_define_by_did_1_request : forall cfg did src pos size,
  fn_define_by_did_1_request did src pos size = payload_of (dddi_define_make cfg did (DefByDid [(src, pos, size)])).
Proof. exact tie_define_by_did_1_request. Qed.
Print Assumptions C01_code_define_by_did_1_request.
Theorem C01_code_define_by_did_2_request : forall cfg did src pos size src2 pos2 size2,
  fn_define_by_did_2_request did src pos size src2 pos2 size2 = payload_of (dddi_define_make cfg did (DefByDid [(src, pos, size); (src2, pos2, size2)])).
Proof. exact tie_define_by_did_2_request. Qed.
Print Assumptions C01_code_define_by_did_2_request.

(* ---- the code is the model: communication_control with the communication type given as an integer (Gen/Fn_SimpleReq.v) ---- *)
From UDS Require Import Proofs.Tie_commctl.
Theorem C01_code_communication_control_request : forall cfg ct v node, std cfg = 2020 ->
  fn_communication_control_request ct v node = (cty <- ct_normalize (CtInt v) ;; payload_of (cc_make cfg ct cty node)).
Proof. exact tie_communication_control_request. Qed.
Print Assumptions C01_code_communication_control_request.

(* ---- the code is the model: io_control on a configured entry with masks (tools/symtrans.py, Gen/Fn_Io.v) ---- *)
From UDS Require Import Gen.Fn_Io Model.Svc_Did Proofs.Tie_io.
Theorem C01_code_io_request_nomask : forall cfg cp v, ios cfg = io_table -> fn_io_request_nomask cp v = payload_of (io_make cfg 306 cp v MNone).
Proof. exact tie_io_request_nomask. Qed.
Print Assumptions C01_code_io_request_nomask.
Theorem C01_code_io_request_bool : forall cfg cp v b, ios cfg = io_table -> fn_io_request_bool cp v b = payload_of (io_make cfg 306 cp v (MBool b)).
Proof. exact tie_io_request_bool. Qed.
Print Assumptions C01_code_io_request_bool.
Theorem C01_code_io_request_dict : forall cfg cp v b0 b1 b2, ios cfg = io_table ->
  fn_io_request_dict cp v b0 b1 b2 = payload_of (io_make cfg 306 cp v (MList [(0, b0); (1, b1); (2, b2)])).
Proof. exact tie_io_request_dict. Qed.
Print Assumptions C01_code_io_request_dict.
Theorem C01_code_io_request_undefined_name : forall cfg cp v b0 bx, ios cfg = io_table ->
  fn_io_request_undefined_name cp v b0 bx = payload_of (io_make cfg 306 cp v (MList [(0, b0); (3, bx)])).
Proof. exact tie_io_request_undefined_name. Qed.
Print Assumptions C01_code_io_request_undefined_name.
