(* placeholder until the totality proofs are written *)
From Coq Require Import ZArith.
Theorem C04_placeholder : True. Proof. exact I. Qed.
