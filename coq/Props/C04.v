(* C04 - any received bytes give a result or a documented exception, never a crash/hang.  Statements only. *)
From Coq Require Import ZArith List Bool String.
From UDS Require Import Lib.Bytes Lib.ErrM Model.Message Model.Client Model.Services Model.Svc_Did Model.Svc_Dtc
  Model.History Proofs.C05_lemmas Proofs.Client_lemmas Proofs.C04_lemmas.
Import ListNotations.
Open Scope Z_scope.

(* every modelled client call, every configuration and client state, every reply schedule of arbitrary byte strings
   (and connection faults): once the request is on the wire the outcome is a value or one of the documented errors
   (value / config / not-implemented / timeout / negative / invalid / unexpected / connection), never an internal
   one (index, struct, attribute, type, overflow, assertion, key) and never out-of-fuel.  Termination itself is by
   construction: every model function is a total Coq function. *)
Theorem C04_total : forall cfg st c now s,
  let '(res, _, _, _, tr) := run_inner cfg st c now s in sent tr <> [] -> ok_cres res.
Proof. exact run_inner_ok. Qed.
Print Assumptions C04_total.

(* the receive loop alone, for any request and schedule *)
Theorem C04_receive_loop : forall cfg p2star rsid spr deadline s single (star : bool) now,
  ok_cres (wl_res (wait_loop cfg p2star rsid spr deadline single star now s)).
Proof. exact wait_loop_ok. Qed.
Print Assumptions C04_receive_loop.

(* "never loops without consuming input": each decoding loop, started with fuel S (length data), never runs out,
   because every round advances the cursor (statement: acceptable result for any fuel exceeding the bytes left) *)
Theorem C04_multi_did_loop : forall pc requested d fuel offset vals,
  (List.length d - offset < fuel)%nat -> ok_res (rdbi_loop fuel pc requested d offset vals).
Proof. exact rdbi_loop_ok. Qed.
Theorem C04_dtc_record_loop : forall pc sub ws d fuel cur acc,
  (List.length d - cur < fuel)%nat -> ok_res (loop_records fuel pc sub ws d cur acc).
Proof. exact loop_records_ok. Qed.
Theorem C04_snapshot_loops : forall pc d fuel cur,
  (List.length d - cur < fuel)%nat ->
  (forall acc, ok_res (loop_snap_by_dtc fuel pc d cur acc)) /\ (forall acc, ok_res (loop_snap_by_rec fuel pc d cur acc)).
Proof. intros pc d fuel cur H. split; intros acc; [apply loop_snap_by_dtc_ok|apply loop_snap_by_rec_ok]; exact H. Qed.
Theorem C04_extended_data_loops : forall pc size recnum d fuel cur,
  (cur <= List.length d)%nat -> (List.length d - cur < fuel)%nat ->
  (forall acc, ok_res (loop_ext_by_dtc fuel pc size d cur acc)) /\ (forall acc, ok_res (loop_ext_by_rec fuel pc size recnum d cur acc)).
Proof. intros pc size recnum d fuel cur Hc H. split; intros acc; [apply loop_ext_by_dtc_ok|apply loop_ext_by_rec_ok]; assumption. Qed.
Theorem C04_dtc_decoder : forall cfg sub a d, ok_res (rdtci_decode cfg sub a d).
Proof. exact rdtci_decode_ok. Qed.
Print Assumptions C04_dtc_decoder.

(* ---- read off the code's own decision trees (regenerated each run, Gen/Fn_SimpleInt.v): for these client methods, whatever the
   arguments and whatever data bytes a positive response carries, every path - argument validation, request building, interpretation,
   echo comparison - ends in a value or in a documented exception class ---- *)
From UDS Require Import Gen.Fn_SimpleInt Proofs.Tie_simple_doc.

Theorem C04_code_ecu_reset : forall t d, d <> [] -> documented (fn_ecu_reset_interpret t d).
Proof. exact doc_ecu_reset. Qed.
Print Assumptions C04_code_ecu_reset.
Theorem C04_code_routine_control : forall rid ct data d, d <> [] -> documented (fn_routine_control_interpret rid ct data d).
Proof. exact doc_routine_control. Qed.
Print Assumptions C04_code_routine_control.
Theorem C04_code_tester_present : forall  d, d <> [] -> documented (fn_tester_present_interpret  d).
Proof. exact doc_tester_present. Qed.
Print Assumptions C04_code_tester_present.
Theorem C04_code_change_session : forall sn d, d <> [] -> documented (fn_change_session_interpret sn d).
Proof. exact doc_change_session. Qed.
Print Assumptions C04_code_change_session.
Theorem C04_code_change_session_2006 : forall sn d, d <> [] -> documented (fn_change_session_2006_interpret sn d).
Proof. exact doc_change_session_2006. Qed.
Print Assumptions C04_code_change_session_2006.
Theorem C04_code_request_seed : forall level data d, d <> [] -> documented (fn_request_seed_interpret level data d).
Proof. exact doc_request_seed. Qed.
Print Assumptions C04_code_request_seed.
Theorem C04_code_send_key : forall level key d, d <> [] -> documented (fn_send_key_interpret level key d).
Proof. exact doc_send_key. Qed.
Print Assumptions C04_code_send_key.
Theorem C04_code_access_timing_parameter : forall a rc d, d <> [] -> documented (fn_access_timing_parameter_interpret a rc d).
Proof. exact doc_access_timing_parameter. Qed.
Print Assumptions C04_code_access_timing_parameter.
Theorem C04_code_transfer_data : forall sq data d, d <> [] -> documented (fn_transfer_data_interpret sq data d).
Proof. exact doc_transfer_data. Qed.
Print Assumptions C04_code_transfer_data.
Theorem C04_code_control_dtc_setting : forall t data d, d <> [] -> documented (fn_control_dtc_setting_interpret t data d).
Proof. exact doc_control_dtc_setting. Qed.
Print Assumptions C04_code_control_dtc_setting.
Theorem C04_code_clear_dtc : forall g m d, d <> [] -> documented (fn_clear_dtc_interpret g m d).
Proof. exact doc_clear_dtc. Qed.
Print Assumptions C04_code_clear_dtc.

(* ... and read_data_by_identifier([0xF190, 0x0102]) on a positive response carrying ANY 1..8 data bytes (the decoder's loop over the DIDs
   of the response, the zero-padding rule, the codec lookup) *)
From UDS Require Import Gen.Fn_DidInt Proofs.Tie_did_doc.
Theorem C04_code_read_data_by_identifier : forall d, d <> [] -> (List.length d < 9)%nat -> documented (fn_rdbi_interpret d).
Proof. exact doc_rdbi. Qed.
Print Assumptions C04_code_read_data_by_identifier.

From UDS Require Import Proofs.Tie_commctl.
Theorem C04_code_communication_control : forall ct v node d, d <> [] -> Tie_commctl.documented (fn_communication_control_interpret ct v node d).
Proof. exact doc_communication_control. Qed.
Print Assumptions C04_code_communication_control.
