(* C04 - any received bytes give a result or a documented exception, never a crash/hang.  Statements only. *)
From Coq Require Import ZArith List Bool String.
From UDS Require Import Lib.Bytes Lib.ErrM Model.Message Model.Client Model.Services Model.Svc_Did Model.Svc_Dtc
  Model.History Proofs.C05_lemmas Proofs.Client_lemmas Proofs.C04_lemmas.
Import ListNotations.
Open Scope Z_scope.

(* every modelled client call, every configuration and client state, every reply schedule of arbitrary byte strings
   (and connection faults): once the request is on the wire the outcome is a value or one of the documented errors
   (value / config / not-implemented / timeout / negative / invalid / unexpected / connection), never an internal
   one (index, struct, attribute, type, overflow, assertion, key) and never out-of-fuel.  Termination itself is by
   construction: every model function is a total Coq function. *)
Theorem C04_total : forall cfg st c now s,
  let '(res, _, _, _, tr) := run_inner cfg st c now s in sent tr <> [] -> ok_cres res.
Proof. exact run_inner_ok. Qed.
Print Assumptions C04_total.

(* the receive loop alone, for any request and schedule *)
Theorem C04_receive_loop : forall cfg p2star rsid spr deadline s single (star : bool) now,
  ok_cres (wl_res (wait_loop cfg p2star rsid spr deadline single star now s)).
Proof. exact wait_loop_ok. Qed.
Print Assumptions C04_receive_loop.

(* "never loops without consuming input": each decoding loop, started with fuel S (length data), never runs out,
   because every round advances the cursor (statement: acceptable result for any fuel exceeding the bytes left) *)
Theorem C04_multi_did_loop : forall pc requested d fuel offset vals,
  (List.length d - offset < fuel)%nat -> ok_res (rdbi_loop fuel pc requested d offset vals).
Proof. exact rdbi_loop_ok. Qed.
Theorem C04_dtc_record_loop : forall pc sub ws d fuel cur acc,
  (List.length d - cur < fuel)%nat -> ok_res (loop_records fuel pc sub ws d cur acc).
Proof. exact loop_records_ok. Qed.
Theorem C04_snapshot_loops : forall pc d fuel cur,
  (List.length d - cur < fuel)%nat ->
  (forall acc, ok_res (loop_snap_by_dtc fuel pc d cur acc)) /\ (forall acc, ok_res (loop_snap_by_rec fuel pc d cur acc)).
Proof. intros pc d fuel cur H. split; intros acc; [apply loop_snap_by_dtc_ok|apply loop_snap_by_rec_ok]; exact H. Qed.
Theorem C04_extended_data_loops : forall pc size recnum d fuel cur,
  (cur <= List.length d)%nat -> (List.length d - cur < fuel)%nat ->
  (forall acc, ok_res (loop_ext_by_dtc fuel pc size d cur acc)) /\ (forall acc, ok_res (loop_ext_by_rec fuel pc size recnum d cur acc)).
Proof. intros pc size recnum d fuel cur Hc H. split; intros acc; [apply loop_ext_by_dtc_ok|apply loop_ext_by_rec_ok]; assumption. Qed.
Theorem C04_dtc_decoder : forall cfg sub a d, ok_res (rdtci_decode cfg sub a d).
Proof. exact rdtci_decode_ok. Qed.
Print Assumptions C04_dtc_decoder.
