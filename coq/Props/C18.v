(* C18 - features of a later ISO-14229 edition are refused under an earlier edition.  Statements only. *)
From Coq Require Import ZArith List Bool String.
From UDS Require Import Lib.Bytes Lib.ErrM Lib.PyOps Gen.DtcGroups Spec.IsoEditions Model.Message Model.Client
  Model.Services Model.Helpers Model.Svc_Simple Model.Svc_Dtc Model.History Proofs.C18_lemmas.
Import ListNotations.
Open Scope Z_scope.

(* the regenerated subfunction lists of the library are exactly ISO's (all editions / 2020-only) *)
Theorem C18_lists :
  same_set (group "subfunction2020") iso_dtc_subfunctions_2020 = true /\
  same_set gen_dtc_subfunctions iso_dtc_subfunctions = true.
Proof. exact dtc_lists_are_iso. Qed.
Print Assumptions C18_lists.

(* every subfunction value, every edition value: unknown -> refused; 2020-only -> refused iff edition < 2020 *)
Theorem C18_dtc_subfunction : forall std_ sub,
  check_subfunction_valid std_ sub =
  if negb (mem sub iso_dtc_subfunctions) then inl EValue
  else if mem sub iso_dtc_subfunctions_2020 && (std_ <? 2020) then inl ENotImpl
  else inr tt.
Proof. exact check_subfunction_spec. Qed.
Print Assumptions C18_dtc_subfunction.

Theorem C18_no_other_gated : forall std_ std' sub, mem sub iso_dtc_subfunctions_2020 = false ->
  check_subfunction_valid std_ sub = check_subfunction_valid std' sub.
Proof. exact not_gated. Qed.

(* refused means nothing is built, hence nothing is sent (single_request sends only a built request) *)
Theorem C18_refused_before_sending : forall cfg sub a e,
  check_subfunction_valid (std cfg) sub = inl e -> rdtci_make cfg sub a = inl e.
Proof. exact rdtci_make_refused. Qed.
Print Assumptions C18_refused_before_sending.

(* memory selection on clear_dtc: refused under < 2020 for every group and value; encoded as a 4th byte from 2020 *)
Theorem C18_clear_dtc_memory_selection : forall cfg g m, 0 <= g <= 16777215 ->
  (std cfg < 2020 -> cdi_make cfg g (Some m) = inl ENotImpl) /\
  (2020 <= std cfg -> 0 <= m <= 255 ->
     exists rq, cdi_make cfg g (Some m) = inr rq /\ q_data rq = Some (be_enc 3 g ++ [m])).
Proof. exact cdi_memsel. Qed.
Print Assumptions C18_clear_dtc_memory_selection.

(* node identification: accepted exactly when present <-> (edition >= 2013 and control type 4 or 5) *)
Theorem C18_node_id : forall cfg ct cty node, 0 <= ct <= 127 ->
  (match node with Some n => 0 <= n <= 65535 | None => True end) ->
  0 <= commtype_byte cty < 256 ->
  (exists rq, cc_make cfg ct cty node = inr rq) <->
  (match node with Some _ => true | None => false end) = node_required (std cfg) ct.
Proof. exact cc_node_rule. Qed.
Print Assumptions C18_node_id.

(* a session-change reply is accepted under >= 2013 only with exactly the four timing bytes *)
Theorem C18_session_reply : forall cfg session r sd,
  dsc_interpret cfg session r = inr sd ->
  (2013 <= std cfg -> List.length (p_data r) = 5%nat) /\ (1 <= List.length (p_data r))%nat.
Proof. exact dsc_reply_length. Qed.
Print Assumptions C18_session_reply.

(* only 2006, 2013, 2020 are accepted as edition on a configuration change *)
Theorem C18_edition_values : forall cfgv st now v, (6 < List.length cfgv)%nat ->
  let '(out, cfgv', _, _) := step_op cfgv st now (OSetCfg 6 v) in
  (mem v iso_editions = true -> out = []) /\ (mem v iso_editions = false -> out = [2; err_code EConfig]).
Proof. exact set_edition. Qed.
Print Assumptions C18_edition_values.
(* ... and on every later configuration change, whichever entry it writes: the edition in the configuration after the change is
   validated (a refused value stays in the configuration, so changes keep being refused until a valid edition is set) *)
Theorem C18_every_change_validates : forall cfgv st now slot v,
  let '(out, cfgv', _, _) := step_op cfgv st now (OSetCfg slot v) in
  cfgv' = set_nth cfgv (Z.to_nat slot) v /\
  (mem (nth 6 cfgv' 0) iso_editions = true -> out = []) /\ (mem (nth 6 cfgv' 0) iso_editions = false -> out = [2; err_code EConfig]).
Proof. exact set_config_validates. Qed.
Print Assumptions C18_every_change_validates.

(* ---- the code is the rule (regenerated each run): Client.__init__, set_config, set_configs, refresh_config, validate_config, clear_dtc
   and communication_control executed on a SYMBOLIC edition (tools/symtrans.py, Gen/Fn_Edition.v) ---- *)
From UDS Require Import Gen.Fn_Edition Model.Svc_Simple Proofs.Tie_simple_common Proofs.Tie_edition.

Theorem C18_code_edition_at_construction : forall v, fn_edition_at_construction v = if is_edition v then ret 0 else fail EConfig.
Proof. exact tie_edition_at_construction. Qed.
Print Assumptions C18_code_edition_at_construction.
Theorem C18_code_edition_at_construction_no_timeout : forall v, fn_edition_at_construction_no_timeout v = if is_edition v then ret 0 else fail EConfig.
Proof. exact tie_edition_at_construction_no_timeout. Qed.
Print Assumptions C18_code_edition_at_construction_no_timeout.
Theorem C18_code_edition_set_config : forall v, fn_edition_set_config v = if is_edition v then ret 0 else fail EConfig.
Proof. exact tie_edition_set_config. Qed.
Print Assumptions C18_code_edition_set_config.
(* set_config(edition v); set_config(request_timeout); set_config(edition w); the same request_timeout again; set_configs({p2_timeout}) *)
Theorem C18_code_later_changes : forall v w, fn_edition_later_changes v w = ret [refused v; refused v; refused w; refused w; refused w].
Proof. exact tie_edition_later_changes. Qed.
Print Assumptions C18_code_later_changes.
Theorem C18_code_clear_dtc : forall cfg g m, fn_edition_clear_dtc_request (std cfg) g m =
  if is_edition (std cfg) then payload_of (cdi_make cfg g m) else fail EConfig.
Proof. exact tie_edition_clear_dtc_request. Qed.
Print Assumptions C18_code_clear_dtc.
Theorem C18_code_communication_control : forall cfg ct node, fn_edition_communication_control_request (std cfg) ct node =
  if is_edition (std cfg) then (cty <- ct_normalize (CtInt 1) ;; payload_of (cc_make cfg ct cty node)) else fail EConfig.
Proof. exact tie_edition_communication_control_request. Qed.
Print Assumptions C18_code_communication_control.
Theorem C18_code_config_isolated : forall v w, fn_config_isolated v w = ret [v; 2006; 1; 2013].
Proof. exact tie_config_isolated. Qed.
Print Assumptions C18_code_config_isolated.
