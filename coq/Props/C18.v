(* placeholder until the proofs are written *)
From Coq Require Import ZArith.
Theorem C18_placeholder : True. Proof. exact I. Qed.
