(* placeholder until the domain proofs are written *)
From Coq Require Import ZArith.
Theorem C07_placeholder : True. Proof. exact I. Qed.
