(* C07 - out-of-domain arguments are rejected before sending; nothing silently truncated.  Statements only.
   `agrees st builder spec` (Proofs/C07_lemmas.v): spec = Some r  -> the builder succeeds and what reaches the wire
   is exactly the ISO frame of r; spec = None (outside the documented domain) -> the builder fails. *)
From Coq Require Import ZArith List Bool String.
From UDS Require Import Lib.Bytes Lib.ErrM Model.Svc_Dtc Model.Svc_File Spec.IsoRequests Model.Message Model.Client Model.Services Model.Helpers
  Model.MemLoc Model.Svc_Simple Model.Svc_Memory Model.Svc_Did Model.History Proofs.Client_lemmas Proofs.C07_lemmas Proofs.C07b_lemmas Proofs.C07c_lemmas Proofs.C14_lemmas.
Import ListNotations.
Open Scope Z_scope.

(* a failed builder means the call raises with the connection untouched: no flush, no send *)
Theorem C07_reject_no_send : forall cfg st e interp post now s,
  single_request cfg st (inl e) interp post now s = (CErr e None, st, now, s, []).
Proof. exact rejected_sends_nothing. Qed.
Print Assumptions C07_reject_no_send.

(* an accepted call sends exactly the frame of its builder, once *)
Theorem C07_accept_sends : forall cfg st mk interp post now s f,
  frame_of st mk = inr f ->
  let '(_, _, _, _, tr) := single_request cfg st mk interp post now s in sent tr = [f].
Proof. exact accepted_sends_frame. Qed.
Print Assumptions C07_accept_sends.

(* the service identifiers and subfunction flags of the library are ISO's *)
Theorem C07_service_ids : forallb svc_row_ok iso_services = true.
Proof. exact iso_services_ok. Qed.

(* accepted domain = documented domain, and inside it the exact ISO bytes, for every argument value *)
Theorem C07_change_session : forall st session, agrees st (dsc_make session) (iso_change_session session).
Proof. exact change_session_agrees. Qed.
Theorem C07_ecu_reset : forall st t, agrees st (er_make t) (iso_ecu_reset t).
Proof. exact ecu_reset_agrees. Qed.
Theorem C07_tester_present : forall st, agrees st (mk_req "TesterPresent" (Some 0) None) iso_tester_present.
Proof. exact tester_present_agrees. Qed.
Theorem C07_security_access : forall st k level data, agrees st (sa_make k level data) (iso_security k level data).
Proof. exact security_agrees. Qed.
Theorem C07_clear_dtc : forall st cfg g m, agrees st (cdi_make cfg g m) (iso_clear_dtc (std cfg) g m).
Proof. exact clear_dtc_agrees. Qed.
Theorem C07_routine_control : forall st rid ct d, agrees st (rc_make rid ct d) (iso_routine rid ct d).
Proof. exact routine_agrees. Qed.
Theorem C07_access_timing : forall st a rec, agrees st (atp_make a rec) (iso_access_timing a rec).
Proof. exact access_timing_agrees. Qed.
Theorem C07_transfer_data : forall st seq d, agrees st (td_make seq d) (iso_transfer_data seq d).
Proof. exact transfer_data_agrees. Qed.
Theorem C07_transfer_exit : forall st d, agrees st (rte_make d) (iso_transfer_exit d).
Proof. exact transfer_exit_agrees. Qed.
Theorem C07_control_dtc_setting : forall st t d, agrees st (cds_make t d) (iso_control_dtc t d).
Proof. exact control_dtc_agrees. Qed.
Theorem C07_communication_control : forall st cfg ct subnet normal nm node cty,
  mk_commtype subnet normal nm = inr cty ->
  agrees st (cc_make cfg ct cty node) (iso_comm_control (std cfg) ct subnet normal nm node).
Proof. exact comm_control_agrees. Qed.
Theorem C07_clear_dynamic_did : forall st did, agrees st (dddi_clear_make did) (iso_clear_did did).
Proof. exact clear_did_agrees. Qed.
Theorem C07_test_data_identifier : forall st cfg l, agrees st (rdbi_make cfg false l) (iso_test_did l).
Proof. exact test_did_agrees. Qed.
Theorem C07_read_data_by_identifier : forall st cfg l,
  agrees st (rdbi_make cfg true l) (if rdbi_domain cfg l then ireq "ReadDataByIdentifier" None (u16s l) else None).
Proof. exact read_dids_agrees. Qed.
Theorem C07_write_data_by_identifier : forall st cfg did v,
  agrees st (wdbi_make cfg did v)
            (iso_write_did did (match fetch_codec (pc_of cfg) did with inr n => Some n | inl _ => None end) v).
Proof. exact write_did_agrees. Qed.
Print Assumptions C07_security_access.
Print Assumptions C07_communication_control.
Print Assumptions C07_read_data_by_identifier.

(* memory-addressed requests: the location either has no wire form (width invalid, value negative or too wide:
   C14_wire / C14_formats) and the builder fails, or the frame is prefix ++ ALFID ++ address ++ size ++ suffix *)
Theorem C07_memory_requests : forall st cfg name sid (pre post : bytes) a s af sf,
  In (name, sid, false) iso_services ->
  match client_memloc cfg a s af sf with
  | inl e => frame_of st (m <- client_memloc cfg a s af sf ;; w <- memloc_wire m ;; mk_req_data name (pre ++ w ++ post)) = inl e
  | inr m =>
    match memloc_wire m with
    | inl e => frame_of st (m <- client_memloc cfg a s af sf ;; w <- memloc_wire m ;; mk_req_data name (pre ++ w ++ post)) = inl e
    | inr w => frame_of st (m <- client_memloc cfg a s af sf ;; w <- memloc_wire m ;; mk_req_data name (pre ++ w ++ post))
               = inr (apply_override (ov st) (sid :: pre ++ w ++ post))
    end
  end.
Proof. exact mem_request_frame. Qed.
Print Assumptions C07_memory_requests.
Theorem C07_memory_wire_is_iso : forall m na ns, 1 <= na <= 8 -> 1 <= ns <= 8 ->
  al_addr (ml_alfid m) = 8 * na -> al_size (ml_alfid m) = 8 * ns ->
  match iso_memloc na ns (ml_addr m) (ml_size m) with
  | Some w => memloc_wire m = inr w
  | None => memloc_wire m = inl EValue
  end.
Proof. exact memloc_wire_iso. Qed.
Print Assumptions C07_memory_wire_is_iso.

(* link_control: every control type, every Baudrate(rate, type) the caller can hand over (fixed / specific / identifier / guessed,
   any integer rate): accepted exactly when ISO has a frame for it, and then that frame (U8 identifier or U24 bit rate) *)
Theorem C07_link_control : forall st ct b, agrees st (x <- lc_arg b ;; lc_make_client ct x) (iso_link_control ct b).
Proof. exact link_control_agrees. Qed.
Print Assumptions C07_link_control.
Theorem C07_link_control_is_the_call : forall cfg st ct b now s,
  run_inner cfg st (CLinkControl ct b) now s =
  single_request cfg st (x <- lc_arg b ;; lc_make_client ct x) (echo1_interpret ct) no_post now s.
Proof. exact link_control_call. Qed.

(* read_dtc_information: all 27 report types with a layout, every combination of present / absent / out-of-range arguments (status and
   severity masks, severity given as object or integer, DTC class, DTC, both record numbers, memory selection, functional group),
   every edition: accepted exactly when ISO has a frame for it, and then that frame.  (0x1A and 0x56 are "todo" in the library.) *)
Theorem C07_read_dtc_information : forall st cfg sub a, sub <> 26 -> sub <> 86 ->
  agrees st (rdtci_make cfg sub a)
    (iso_read_dtc (std cfg) sub (da_status a) (da_severity a) (da_sev_obj a) (da_class a) (da_dtc a) (da_snap a) (da_ext a) (da_memsel a) (da_fgid a)).
Proof. exact rdtci_agrees. Qed.
Print Assumptions C07_read_dtc_information.

(* dynamically_define_did by source identifiers: any number of entries *)
Theorem C07_define_by_did : forall st cfg did entries,
  agrees st (dddi_define_make cfg did (DefByDid entries)) (iso_define_by_did did entries).
Proof. exact define_by_did_agrees. Qed.
Print Assumptions C07_define_by_did.

(* authentication (and its nine convenience methods): every task 0..8, every combination of present / absent / out-of-range
   configuration byte and evaluation id, over-long and absent byte strings, algorithm indicators of any length *)
Theorem C07_authentication : forall st task a,
  agrees st (auth_make task a)
    (iso_authentication task (au_cfg a) (au_cert a) (au_chal a) (au_algo a) (au_evalid a) (au_certdata a) (au_pown a) (au_eph a) (au_add a)).
Proof. exact authentication_agrees. Qed.
Print Assumptions C07_authentication.

(* request_file_transfer: every mode of operation, path, data format and file size argument (integer or Filesize object with any
   combination of given / absent / negative / oversized fields) *)
Theorem C07_file_transfer : forall st moop path d f,
  agrees st (rft_make moop path d f) (iso_file_transfer moop path d (fs_iso f)).
Proof. exact file_transfer_agrees. Qed.
Print Assumptions C07_file_transfer.
Theorem C07_file_transfer_is_the_call : forall cfg st moop path d f now s,
  run_inner cfg st (CFileTransfer moop path d f) now s = single_request cfg st (rft_make moop path d f) (rft_interpret cfg moop d) no_post now s.
Proof. reflexivity. Qed.

(* io_control: every DID, control parameter, values and mask argument (none / all-or-nothing boolean / named list), against the
   configured entry of the DID (its own, else the default one; codec length, named mask values, mask size) *)
Theorem C07_io_control : forall st cfg did cp values masks,
  agrees st (io_make cfg did cp values masks) (iso_io_control (io_entry_of cfg did) did cp values (masks_iso masks)).
Proof. exact io_control_agrees. Qed.
Print Assumptions C07_io_control.
Theorem C07_io_control_is_the_call : forall cfg st did cp v m now s,
  run_inner cfg st (CIoControl did cp v m) now s = single_request cfg st (io_make cfg did cp v m) (io_interpret cfg did cp) no_post now s.
Proof. reflexivity. Qed.

(* dynamically_define_did by memory address: any number of sources, each MemoryLocation(address, size, address_format,
   memorysize_format) with its widths explicit, else configured (server_address_format / server_memorysize_format), else the fewest
   bytes that hold the value; every integer address and size (negative and oversized ones are refused), mixed widths are refused *)
Theorem C07_define_by_memory : forall st cfg did entries,
  agrees st (dddi_define_make cfg did (DefByMem entries)) (iso_define_by_memory (srv_addr cfg) (srv_size cfg) did entries).
Proof. exact define_by_memory_agrees. Qed.
Print Assumptions C07_define_by_memory.

(* every request builder of the client is now characterised against Spec/IsoRequests.v by an `agrees` theorem (memory-addressed
   requests other than define-by-memory through C07_memory_requests + C07_memory_wire_is_iso + C14_precedence). *)

(* ---- the code is the model (regenerated each run): the request each of these client methods hands to send_request, obtained by
   executing the method on symbolic arguments (tools/symtrans.py, Gen/Fn_SimpleReq.v), is the model's builder: same refusals before
   anything is sent, same bytes ---- *)
From UDS Require Import Gen.Fn_SimpleReq Model.Svc_Simple Proofs.Tie_simple_common Proofs.Tie_simple_req.

Theorem C07_code_ecu_reset_request : forall t, fn_ecu_reset_request t = payload_of (er_make t).
Proof. exact tie_ecu_reset_request. Qed.
Print Assumptions C07_code_ecu_reset_request.
Theorem C07_code_routine_control_request : forall rid ct data, fn_routine_control_request rid ct data = payload_of (rc_make rid ct data).
Proof. exact tie_routine_control_request. Qed.
Print Assumptions C07_code_routine_control_request.
Theorem C07_code_tester_present_request : fn_tester_present_request  = payload_of (mk_req "TesterPresent" (Some 0) None).
Proof. exact tie_tester_present_request. Qed.
Print Assumptions C07_code_tester_present_request.
Theorem C07_code_change_session_request : forall sn, fn_change_session_request sn = payload_of (dsc_make sn).
Proof. exact tie_change_session_request. Qed.
Print Assumptions C07_code_change_session_request.
Theorem C07_code_change_session_2006_request : forall sn, fn_change_session_2006_request sn = payload_of (dsc_make sn).
Proof. exact tie_change_session_2006_request. Qed.
Print Assumptions C07_code_change_session_2006_request.
Theorem C07_code_request_seed_request : forall level data, fn_request_seed_request level data = payload_of (sa_make false level data).
Proof. exact tie_request_seed_request. Qed.
Print Assumptions C07_code_request_seed_request.
Theorem C07_code_send_key_request : forall level key, fn_send_key_request level key = payload_of (sa_make true level key).
Proof. exact tie_send_key_request. Qed.
Print Assumptions C07_code_send_key_request.
Theorem C07_code_access_timing_parameter_request : forall a rc, fn_access_timing_parameter_request a rc = payload_of (atp_make a rc).
Proof. exact tie_access_timing_parameter_request. Qed.
Print Assumptions C07_code_access_timing_parameter_request.
Theorem C07_code_transfer_data_request : forall sq data, fn_transfer_data_request sq data = payload_of (td_make sq data).
Proof. exact tie_transfer_data_request. Qed.
Print Assumptions C07_code_transfer_data_request.
Theorem C07_code_control_dtc_setting_request : forall t data, fn_control_dtc_setting_request t data = payload_of (cds_make t data).
Proof. exact tie_control_dtc_setting_request. Qed.
Print Assumptions C07_code_control_dtc_setting_request.
Theorem C07_code_clear_dtc_request : forall cfg g m, std cfg = 2020 -> fn_clear_dtc_request g m = payload_of (cdi_make cfg g m).
Proof. exact tie_clear_dtc_request. Qed.
Print Assumptions C07_code_clear_dtc_request.

(* ---- the code is the model: read_data_by_identifier with SYMBOLIC identifiers against a configured table (Gen/Fn_Did.v) ---- *)
From UDS Require Import Gen.Fn_Did Model.Svc_Did Proofs.Tie_did.
Theorem C07_code_rdbi_request_1 : forall cfg d1, dids cfg = table -> fn_rdbi_request_1 d1 = payload_of (rdbi_make cfg true [d1]).
Proof. exact tie_rdbi_request_1. Qed.
Print Assumptions C07_code_rdbi_request_1.
Theorem C07_code_rdbi_request_2 : forall cfg d1 d2, dids cfg = table -> fn_rdbi_request_2 d1 d2 = payload_of (rdbi_make cfg true [d1; d2]).
Proof. exact tie_rdbi_request_2. Qed.
Print Assumptions C07_code_rdbi_request_2.
Theorem C07_code_rdbi_request_2_default : forall cfg d1 d2, dids cfg = table_default ->
  fn_rdbi_request_2_default d1 d2 = payload_of (rdbi_make cfg true [d1; d2]).
Proof. exact tie_rdbi_request_2_default. Qed.
Print Assumptions C07_code_rdbi_request_2_default.

(* ---- the code is the model: request_transfer_exit, clear_dynamically_defined_did (Gen/Fn_More.v) ---- *)
From UDS Require Import Gen.Fn_More Model.Svc_Memory Proofs.Tie_more.
Theorem C07_code_request_transfer_exit_request : forall data, fn_request_transfer_exit_request data = payload_of (rte_make data).
Proof. exact tie_request_transfer_exit_request. Qed.
Print Assumptions C07_code_request_transfer_exit_request.
Theorem C07_code_clear_did_request : forall did, fn_clear_did_request did = payload_of (dddi_clear_make (Some did)).
Proof. exact tie_clear_did_request. Qed.
Print Assumptions C07_code_clear_did_request.

(* ---- the code is the model: request_download / request_upload (explicit 16/8-bit formats, with and without a data format identifier),
   dynamically_define_did by source DID with one and two entries (Gen/Fn_More2.v) ---- *)
From UDS Require Import Gen.Fn_More2 Proofs.Tie_memory_echo Proofs.Tie_more2.
Theorem C07_code_request_download_request : forall cfg a s, no_server_formats cfg ->
  fn_request_download_request a s = payload_of (rud_make cfg false a s (Some 16) (Some 8) None).
Proof. exact tie_request_download_request. Qed.
Print Assumptions C07_code_request_download_request.
Theorem C07_code_request_upload_request : forall cfg a s, no_server_formats cfg ->
  fn_request_upload_request a s = payload_of (rud_make cfg true a s (Some 16) (Some 8) None).
Proof. exact tie_request_upload_request. Qed.
Print Assumptions C07_code_request_upload_request.
Theorem C07_code_request_download_dfi_request : forall cfg a s cm en, no_server_formats cfg ->
  fn_request_download_dfi_request a s cm en = payload_of (rud_make cfg false a s (Some 16) (Some 8) (Some (cm, en))).
Proof. exact tie_request_download_dfi_request. Qed.
Print Assumptions C07_code_request_download_dfi_request.
Theorem C07_code_request_upload_dfi_request : forall cfg a s cm en, no_server_formats cfg ->
  fn_request_upload_dfi_request a s cm en = payload_of (rud_make cfg true a s (Some 16) (Some 8) (Some (cm, en))).
Proof. exact tie_request_upload_dfi_request. Qed.
Print Assumptions C07_code_request_upload_dfi_request.
Theorem C07_code_define_by_did_1_request : forall cfg did src pos size,
  fn_define_by_did_1_request did src pos size = payload_of (dddi_define_make cfg did (DefByDid [(src, pos, size)])).
Proof. exact tie_define_by_did_1_request. Qed.
Print Assumptions C07_code_define_by_did_1_request.
Theorem C07_code_define_by_did_2_request : forall cfg did src pos size src2 pos2 size2,
  fn_define_by_did_2_request did src pos size src2 pos2 size2 = payload_of (dddi_define_make cfg did (DefByDid [(src, pos, size); (src2, pos2, size2)])).
Proof. exact tie_define_by_did_2_request. Qed.
Print Assumptions C07_code_define_by_did_2_request.

(* ---- the code is the model: communication_control with the communication type given as an integer (Gen/Fn_SimpleReq.v) ---- *)
From UDS Require Import Proofs.Tie_commctl.
Theorem C07_code_communication_control_request : forall cfg ct v node, std cfg = 2020 ->
  fn_communication_control_request ct v node = (cty <- ct_normalize (CtInt v) ;; payload_of (cc_make cfg ct cty node)).
Proof. exact tie_communication_control_request. Qed.
Print Assumptions C07_code_communication_control_request.

(* ---- the code is the model: io_control on a configured entry with masks (tools/symtrans.py, Gen/Fn_Io.v) ---- *)
From UDS Require Import Gen.Fn_Io Model.Svc_Did Proofs.Tie_io.
Theorem C07_code_io_request_nomask : forall cfg cp v, ios cfg = io_table -> fn_io_request_nomask cp v = payload_of (io_make cfg 306 cp v MNone).
Proof. exact tie_io_request_nomask. Qed.
Print Assumptions C07_code_io_request_nomask.
Theorem C07_code_io_request_bool : forall cfg cp v b, ios cfg = io_table -> fn_io_request_bool cp v b = payload_of (io_make cfg 306 cp v (MBool b)).
Proof. exact tie_io_request_bool. Qed.
Print Assumptions C07_code_io_request_bool.
Theorem C07_code_io_request_dict : forall cfg cp v b0 b1 b2, ios cfg = io_table ->
  fn_io_request_dict cp v b0 b1 b2 = payload_of (io_make cfg 306 cp v (MList [(0, b0); (1, b1); (2, b2)])).
Proof. exact tie_io_request_dict. Qed.
Print Assumptions C07_code_io_request_dict.
Theorem C07_code_io_request_undefined_name : forall cfg cp v b0 bx, ios cfg = io_table ->
  fn_io_request_undefined_name cp v b0 bx = payload_of (io_make cfg 306 cp v (MList [(0, b0); (3, bx)])).
Proof. exact tie_io_request_undefined_name. Qed.
Print Assumptions C07_code_io_request_undefined_name.
