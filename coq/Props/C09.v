(* C09 - response suppression sets bit 7, returns None, and never outlives its with-block. Statements only. *)
From Coq Require Import ZArith List Bool String.
From UDS Require Import Lib.Bytes Lib.ErrM Model.Message Model.Client Model.Services Model.History
  Proofs.C05_lemmas Proofs.Client_lemmas Proofs.History_lemmas.
Import ListNotations.
Open Scope Z_scope.

(* what goes on the wire: services with a subfunction get bit 7 set exactly when suppression is in force and
   are otherwise unchanged; services without a subfunction are sent unmodified; then the payload override *)
Theorem C09_bit7 : forall st s sub d r,
  In s services -> 0 <= sub < 128 -> mk_request (Some s) (Some sub) false d = inr r ->
  wire_payload st r = inr (apply_override (ov st)
    (if s_sub s then s_sid s :: (if spr_on st then sub + 128 else sub) :: match d with Some x => x | None => [] end
     else s_sid s :: match d with Some x => x | None => [] end)).
Proof. exact wire_payload_spec. Qed.
Print Assumptions C09_bit7.

(* that payload is what send_request transmits, exactly once, after one flush *)
Theorem C09_sent : forall cfg st r to now s,
  let x := send_request cfg st r to now s in
  match wire_payload st r with
  | inr p => exists tr, wl_trace x = EvF :: EvS p :: tr /\ count_s tr = O /\ count_f tr = O /\ count_algo tr = O /\ cb_then_w tr
  | inl e => (wl_trace x = [] \/ wl_trace x = [EvF]) /\ wl_res x = CErr e None
  end.
Proof. exact send_request_shape. Qed.
Print Assumptions C09_sent.

(* not waiting for an NRC: None immediately, nothing is read *)
Theorem C09_none_immediately : forall cfg st r to now s sv,
  q_svc r = Some sv -> s_sub sv = true -> spr_on st = true ->
  match spr_wait st with Some true => False | _ => True end ->
  forall p, wire_payload st r = inr p ->
  send_request cfg st r to now s = (COk None, now, flush now s, [EvF; EvS p]).
Proof. exact send_request_spr_nowait. Qed.
Print Assumptions C09_none_immediately.

(* waiting for an NRC: never a timeout error, never a response object (silence and positive replies give None);
   a negative reply is processed as in C06 (C06_negative holds for spr = true as well) *)
Theorem C09_wait_nrc : forall cfg st r to now s sv,
  q_svc r = Some sv -> s_sub sv = true -> spr_on st = true ->
  match wl_res (send_request cfg st r to now s) with
  | CErr ETimeout _ => False
  | COk (Some _) => False
  | _ => True
  end.
Proof. exact send_request_spr_wait. Qed.
Print Assumptions C09_wait_nrc.

(* histories: inside a block suppression is on; after the exit (whatever happened inside: calls of any outcome,
   configuration changes, overrides) it is off until a block is entered again; calls never touch the flags *)
Theorem C09_inside : forall cfgv st now before w inside,
  forallb (fun o => match o with OSprExit | OSprEnter _ => false | _ => true end) inside = true ->
  spr_on (state_after cfgv st now (before ++ OSprEnter w :: inside)) = true.
Proof. exact inside_block_on. Qed.
Print Assumptions C09_inside.

Theorem C09_after : forall cfgv st now before after,
  forallb (fun o => negb (is_spr_enter o)) after = true ->
  spr_on (state_after cfgv st now (before ++ OSprExit :: after)) = false.
Proof. exact after_exit_off. Qed.
Print Assumptions C09_after.

(* a later block entered in the bare form (no wait_nrc argument) does not inherit the previous block's wait_nrc: it is on and
   not waiting, whatever ran in between *)
Theorem C09_bare_block_not_waiting : forall cfgv st now before mid inside,
  forallb no_spr_op mid = true -> forallb no_spr_op inside = true ->
  let st' := state_after cfgv st now (before ++ OSprExit :: mid ++ OSprEnter None :: inside) in
  spr_on st' = true /\ spr_wait st' = None.
Proof. exact bare_block_not_waiting. Qed.
Print Assumptions C09_bare_block_not_waiting.

Theorem C09_calls_keep_flags : forall cfg st c now s,
  let '(_, st', _, _, _) := run_inner cfg st c now s in flags_of st' = flags_of st.
Proof. exact run_inner_flags. Qed.
Print Assumptions C09_calls_keep_flags.

(* ---- the code is the model (regenerated each run): the real Client.send_request executed on a symbolic clock (tools/symtrans.py,
   Gen/Fn_SendRequest.v) - inside suppress_positive_response blocks ---- *)
From UDS Require Import Gen.Fn_SendRequest Model.Services Proofs.Tie_send_common Proofs.Tie_send_spr.

Theorem C09_code_send_request_spr_wait_silence : forall cfg T P2 P2S now, timing cfg (Some T) P2 P2S ->
  fn_send_request_spr_wait_silence T P2 P2S now = ret (obs_sr (send_request cfg (spr_enter (spr_call st_init true)) tp_req (-1) now [])).
Proof. exact tie_send_request_spr_wait_silence. Qed.
Print Assumptions C09_code_send_request_spr_wait_silence.
Theorem C09_code_send_request_spr_wait_P : forall cfg T P2 P2S now a1, timing cfg (Some T) P2 P2S -> now < a1 ->
  fn_send_request_spr_wait_P T P2 P2S now a1 = ret (obs_sr (send_request cfg (spr_enter (spr_call st_init true)) tp_req (-1) now [(a1, Frame [126; 0])])).
Proof. exact tie_send_request_spr_wait_P. Qed.
Print Assumptions C09_code_send_request_spr_wait_P.
Theorem C09_code_send_request_spr_wait_N : forall cfg T P2 P2S now a1, timing cfg (Some T) P2 P2S -> now < a1 ->
  fn_send_request_spr_wait_N T P2 P2S now a1 = ret (obs_sr (send_request cfg (spr_enter (spr_call st_init true)) tp_req (-1) now [(a1, Frame [127; 62; 34])])).
Proof. exact tie_send_request_spr_wait_N. Qed.
Print Assumptions C09_code_send_request_spr_wait_N.
Theorem C09_code_send_request_spr_wait_W : forall cfg T P2 P2S now a1, timing cfg (Some T) P2 P2S -> now < a1 ->
  fn_send_request_spr_wait_W T P2 P2S now a1 = ret (obs_sr (send_request cfg (spr_enter (spr_call st_init true)) tp_req (-1) now [(a1, Frame [127; 62; 120])])).
Proof. exact tie_send_request_spr_wait_W. Qed.
Print Assumptions C09_code_send_request_spr_wait_W.
Theorem C09_code_send_request_spr_wait_WP : forall cfg T P2 P2S now a1 a2, timing cfg (Some T) P2 P2S -> now < a1 ->
  fn_send_request_spr_wait_WP T P2 P2S now a1 a2 = ret (obs_sr (send_request cfg (spr_enter (spr_call st_init true)) tp_req (-1) now [(a1, Frame [127; 62; 120]); (a2, Frame [126; 0])])).
Proof. exact tie_send_request_spr_wait_WP. Qed.
Print Assumptions C09_code_send_request_spr_wait_WP.
Theorem C09_code_send_request_spr_wait_WN : forall cfg T P2 P2S now a1 a2, timing cfg (Some T) P2 P2S -> now < a1 ->
  fn_send_request_spr_wait_WN T P2 P2S now a1 a2 = ret (obs_sr (send_request cfg (spr_enter (spr_call st_init true)) tp_req (-1) now [(a1, Frame [127; 62; 120]); (a2, Frame [127; 62; 34])])).
Proof. exact tie_send_request_spr_wait_WN. Qed.
Print Assumptions C09_code_send_request_spr_wait_WN.
Theorem C09_code_send_request_spr_silence : forall cfg T P2 P2S now, timing cfg (Some T) P2 P2S ->
  fn_send_request_spr_silence T P2 P2S now = ret (obs_sr (send_request cfg (spr_enter (spr_call st_init false)) tp_req (-1) now [])).
Proof. exact tie_send_request_spr_silence. Qed.
Print Assumptions C09_code_send_request_spr_silence.
Theorem C09_code_send_request_spr_P : forall cfg T P2 P2S now a1, timing cfg (Some T) P2 P2S -> now < a1 ->
  fn_send_request_spr_P T P2 P2S now a1 = ret (obs_sr (send_request cfg (spr_enter (spr_call st_init false)) tp_req (-1) now [(a1, Frame [126; 0])])).
Proof. exact tie_send_request_spr_P. Qed.
Print Assumptions C09_code_send_request_spr_P.

(* ---- the code is the model (regenerated each run): the real Client.send_request on a symbolic clock inside / after the context managers
   (tools/symtrans.py, Gen/Fn_SendContext.v) - a bare suppress block after one that waited for negative replies does not wait; after a block requests are ordinary again ---- *)
From UDS Require Import Gen.Fn_SendContext Model.Client Model.Services Proofs.Tie_send_common Proofs.Tie_send_flush Proofs.Tie_send_ctx.

Theorem C09_code_send_request_bare_after_wait_silence : forall cfg T P2 P2S now, timing cfg (Some T) P2 P2S ->
  fn_send_request_bare_after_wait_silence T P2 P2S now = ret (obs_full (send_request cfg st_bare_after_wait tp_req (-1) now [])).
Proof. exact tie_send_request_bare_after_wait_silence. Qed.
Print Assumptions C09_code_send_request_bare_after_wait_silence.
Theorem C09_code_send_request_bare_after_wait_P : forall cfg T P2 P2S now a1, timing cfg (Some T) P2 P2S ->
  fn_send_request_bare_after_wait_P T P2 P2S now a1 = ret (obs_full (send_request cfg st_bare_after_wait tp_req (-1) now [(a1, Frame [126; 0])])).
Proof. exact tie_send_request_bare_after_wait_P. Qed.
Print Assumptions C09_code_send_request_bare_after_wait_P.
Theorem C09_code_send_request_after_wait_block_silence : forall cfg T P2 P2S now, timing cfg (Some T) P2 P2S ->
  fn_send_request_after_wait_block_silence T P2 P2S now = ret (obs_full (send_request cfg st_after_wait_block tp_req (-1) now [])).
Proof. exact tie_send_request_after_wait_block_silence. Qed.
Print Assumptions C09_code_send_request_after_wait_block_silence.
Theorem C09_code_send_request_after_wait_block_P : forall cfg T P2 P2S now a1, timing cfg (Some T) P2 P2S ->
  fn_send_request_after_wait_block_P T P2 P2S now a1 = ret (obs_full (send_request cfg st_after_wait_block tp_req (-1) now [(a1, Frame [126; 0])])).
Proof. exact tie_send_request_after_wait_block_P. Qed.
Print Assumptions C09_code_send_request_after_wait_block_P.
