(* C02 - well-formed positive responses decode to exactly the values the server encoded.  Statements only.
   Reference encoders (rec4 / recs4, rec5, enc_did / enc_dids, lenpref, big-endian fields) are in Proofs/C02_lemmas.v. *)
From Coq Require Import ZArith List Bool String.
From UDS Require Import Lib.Bytes Lib.ErrM Lib.PyOps Model.Message Model.Client Model.Services Model.Svc_Memory Model.Svc_Did
  Model.Svc_File Model.Svc_Dtc Proofs.Bytes_lemmas Proofs.History_lemmas Proofs.C02_lemmas Proofs.C02b_lemmas Proofs.C02c_lemmas Proofs.C02d_lemmas Proofs.C14_lemmas.
Import ListNotations.
Open Scope Z_scope.

(* multi-byte integers are read big-endian and unsigned, for every width and value *)
Theorem C02_unsigned_fields : forall n v, 0 <= v < 256 ^ Z.of_nat n -> be_dec (be_enc n v) = v.
Proof. exact be_dec_enc. Qed.
Theorem C02_field_at_cursor : forall pre n v post, 0 <= v < 256 ^ Z.of_nat n ->
  take_num (pre ++ be_enc n v ++ post) (List.length pre) n = inr v.
Proof. exact take_num_decode. Qed.
Print Assumptions C02_field_at_cursor.

(* maxNumberOfBlockLength of RequestDownload / RequestUpload: length nibble 0..8, any value incl. the top bit *)
Theorem C02_block_length : forall r n v extra, 0 <= n <= 8 -> 0 <= v < 256 ^ n ->
  p_data r = (16 * n) :: be_enc (Z.to_nat n) v ++ extra -> rud_interpret r = inr [v].
Proof. exact rud_decode. Qed.
Print Assumptions C02_block_length.

(* P2 / P2* of a session change: C10_scaled.  Echo of WriteMemoryByAddress: C14_echo. *)

(* length-prefixed byte strings of Authentication responses, at any position *)
Theorem C02_length_prefixed : forall pre b post, Z.of_nat (List.length b) < 65536 ->
  extract_param (pre ++ lenpref b ++ post) (List.length pre) = inr (b, (List.length pre + 2 + List.length b)%nat).
Proof. exact extract_param_decode. Qed.
Print Assumptions C02_length_prefixed.

(* (DTC, status) record lists of any length: order and count kept, 24-bit identifier and status at the right offsets *)
Theorem C02_dtc_records : forall pc sub l pre acc fuel,
  Forall wf_rec4 l -> (pc_ign pc = true -> Forall (fun x => x <> (0, 0)) l) ->
  (List.length l < fuel)%nat ->
  loop_records fuel pc sub false (pre ++ recs4 l) (List.length pre) acc = inr (acc ++ map dtc4 l).
Proof. exact loop_records_decode. Qed.
Print Assumptions C02_dtc_records.

(* WWH-OBD (severity, DTC, status) record lists *)
Theorem C02_wwh_obd_records : forall pc l acc fuel n,
  Forall wf_rec5 l -> (pc_ign pc = true -> Forall (fun x => x <> (0, 0, 0)) l) ->
  (List.length l + n < fuel)%nat -> (n = 0%nat \/ (pc_tol pc = true /\ pc_ign pc = true)) ->
  loop_wwh fuel pc (flat_map rec5 l ++ repeat 0 n) acc = inr (acc ++ map dtc5 l).
Proof. exact loop_wwh_decode. Qed.
Print Assumptions C02_wwh_obd_records.

(* DID values of a ReadDataByIdentifier response: any number of distinct identifiers with fixed-length codecs *)
Theorem C02_did_values : forall pc req l pre vals fuel,
  Forall (wf_did pc) l -> Forall (fun x => fst x <> 0 \/ pc_tol pc = false \/ lookup 0 (pc_dids pc) <> None) l ->
  NoDup (map fst vals ++ map fst l) -> (List.length l < fuel)%nat ->
  rdbi_loop fuel pc req (pre ++ enc_dids l) (List.length pre) vals = inr (vals ++ l).
Proof. exact rdbi_loop_decode. Qed.
Print Assumptions C02_did_values.

(* snapshot records of reportDTCSnapshotRecordByDTCNumber (0x04), every edition, dtc_snapshot_did_size 1..8: any number of
   records, each with 1..255 DIDs of configured fixed-length codecs: DTC, status, every record number, DID and value *)
Theorem C02_snapshots_by_dtc : forall cfg a dtc st l,
  0 <= dtc < 16777216 -> 0 <= st < 256 -> 1 <= snap_did cfg <= 8 -> Forall (wf_snap (pc_of cfg)) l ->
  rdtci_decode cfg 4 a ([4] ++ be_enc 3 dtc ++ [st] ++ flat_map (snap_rec (Z.to_nat (snap_did cfg))) l)
  = inr {| r_echo := 4; r_memsel := -1; r_status_av := -1; r_sev_av := -1; r_format := -1; r_fgid := -1; r_count := 1;
           r_dtcs := [dtc_with (mk_dtc dtc) st 0 (-1) (-1) (flat_map snaps_of l) []] |}.
Proof. exact snapshots_by_dtc_decode. Qed.
Print Assumptions C02_snapshots_by_dtc.

(* snapshot records by record number (0x05): (record number, DTC, status, DIDs)* *)
Theorem C02_snapshots_by_record : forall pc l pre acc fuel,
  Forall (wf_srec pc) l -> (List.length l < fuel)%nat ->
  loop_snap_by_rec fuel pc (pre ++ flat_map (srec (Z.to_nat (pc_snap pc))) l ++ repeat 0 0) (List.length pre) acc
  = inr (acc ++ map dtc_of_srec l).
Proof. intros pc l pre acc fuel Hw Hf. exact (loop_snap_by_rec_decode pc l pre acc fuel 0 Hw Hf (or_introl eq_refl)). Qed.
Print Assumptions C02_snapshots_by_record.

(* extended data of reportDTCExtendedDataRecordByDTCNumber (0x06): any number of (record number, data of the configured size) *)
Theorem C02_extended_data_by_dtc : forall cfg a dtc st size l,
  0 <= dtc < 16777216 -> 0 <= st < 256 -> ext_size_of cfg a = inr size -> Forall (wf_ext size) l ->
  rdtci_decode cfg 6 a ([6] ++ be_enc 3 dtc ++ [st] ++ flat_map ext_rec l)
  = inr {| r_echo := 6; r_memsel := -1; r_status_av := -1; r_sev_av := -1; r_format := -1; r_fgid := -1; r_count := 1;
           r_dtcs := [dtc_with (mk_dtc dtc) st 0 (-1) (-1) [] l] |}.
Proof. exact extdata_by_dtc_decode. Qed.
Print Assumptions C02_extended_data_by_dtc.

(* extended data by record number (0x16): (DTC, status, data)* with distinct DTCs *)
Theorem C02_extended_data_by_record : forall pc size recnum l pre fuel,
  Forall (wf_erec size) l -> NoDup (map eid l) -> (List.length l < fuel)%nat ->
  loop_ext_by_rec fuel pc size recnum (pre ++ flat_map erec l ++ repeat 0 0) (List.length pre) [] = inr (map (dtc_of_erec recnum) l).
Proof.
  intros pc size recnum l pre fuel Hw Hn Hf.
  exact (loop_ext_by_rec_decode pc size recnum l pre [] fuel 0 Hw Hn (fun y Hy => match Hy with end) Hf (or_introl eq_refl)).
Qed.
Print Assumptions C02_extended_data_by_record.

(* severity records (0x08, 0x09): severity bits 5..7, functional unit, DTC, status; fault counters (0x14) *)
Theorem C02_severity_records : forall pc sub l pre acc fuel,
  Forall wf_rec6 l -> (pc_ign pc = true -> Forall (fun x => x <> (0, 0, 0, 0)) l) -> (List.length l + 0 < fuel)%nat ->
  loop_records fuel pc sub true (pre ++ flat_map rec6 l ++ repeat 0 0) (List.length pre) acc = inr (acc ++ map dtc6 l).
Proof. intros pc sub l pre acc fuel Hw Hz Hf. exact (loop_records6_decode pc sub l pre acc 0 fuel Hw Hz (or_introl eq_refl) Hf). Qed.
Print Assumptions C02_severity_records.
Theorem C02_fault_counters : forall pc l pre acc fuel,
  Forall wf_rec4 l -> (pc_ign pc = true -> Forall (fun x => x <> (0, 0)) l) -> (List.length l + 0 < fuel)%nat ->
  loop_pairs fuel pc true (pre ++ recs4 l ++ repeat 0 0) (List.length pre) acc = inr (acc ++ map dtcf l).
Proof. intros pc l pre acc fuel Hw Hz Hf. exact (loop_fault_counters_decode pc l pre acc 0 fuel Hw Hz (or_introl eq_refl) Hf). Qed.
Print Assumptions C02_fault_counters.

(* ---- the whole response payload of read_dtc_information, end to end (rdtci_decode is interpret_response): every report type
   with a record layout, any number of records, and (n > 0) the trailing zero bytes the tolerance settings allow ---------- *)

(* reportNumberOfDTC... (0x01, 0x07, 0x11, 0x12): availability mask, format identifier, 16-bit count *)
Theorem C02_number_of_dtc : forall cfg sub a av fmt cnt extra,
  In sub [1; 7; 17; 18] -> 0 <= cnt < 65536 ->
  rdtci_decode cfg sub a ([sub; av; fmt] ++ be_enc 2 cnt ++ extra)
  = inr {| r_echo := sub; r_memsel := -1; r_status_av := av; r_sev_av := -1; r_format := fmt; r_fgid := -1;
           r_count := cnt; r_dtcs := [] |}.
Proof. exact number_of_dtc_decode. Qed.
Print Assumptions C02_number_of_dtc.

(* the status-mask family (0x02, 0x0A..0x0F, 0x13, 0x15): availability mask, then (DTC, status)* *)
Theorem C02_dtc_by_status_mask : forall cfg sub a av l n,
  In sub [2; 10; 11; 12; 13; 14; 15; 19; 21] -> Forall wf_rec4 l ->
  ((n = 0%nat /\ (ign_zero cfg = true -> Forall (fun x => x <> (0, 0)) l))
   \/ (tol_pad cfg = true /\ ign_zero cfg = true /\ Forall (fun x => x <> (0, 0)) l)) ->
  rdtci_decode cfg sub a ([sub; av] ++ recs4 l ++ repeat 0 n)
  = inr {| r_echo := sub; r_memsel := -1; r_status_av := av; r_sev_av := -1; r_format := -1; r_fgid := -1;
           r_count := Z.of_nat (List.length l); r_dtcs := map dtc4 l |}.
Proof. exact dtc_list_decode_one. Qed.
Print Assumptions C02_dtc_by_status_mask.

(* reportUserDefMemoryDTCByStatusMask (0x17, 2020 edition): memory selection echo first *)
Theorem C02_userdef_dtc_by_status_mask : forall cfg a ms av l n,
  2020 <= std cfg -> Forall wf_rec4 l ->
  ((n = 0%nat /\ (ign_zero cfg = true -> Forall (fun x => x <> (0, 0)) l))
   \/ (tol_pad cfg = true /\ ign_zero cfg = true /\ Forall (fun x => x <> (0, 0)) l)) ->
  rdtci_decode cfg 23 a ([23; ms; av] ++ recs4 l ++ repeat 0 n)
  = inr {| r_echo := 23; r_memsel := ms; r_status_av := av; r_sev_av := -1; r_format := -1; r_fgid := -1;
           r_count := Z.of_nat (List.length l); r_dtcs := map dtc4 l |}.
Proof. exact userdef_dtc_list_decode. Qed.
Print Assumptions C02_userdef_dtc_by_status_mask.

(* reportDTCSnapshotIdentification (0x03): (DTC, snapshot record number)*: one Dtc per identifier in order of first appearance,
   holding exactly that identifier's record numbers in order of appearance (snapid_spec, Proofs/C02c_lemmas.v) *)
Theorem C02_snapshot_identification : forall cfg a l n,
  Forall wf_rec4 l -> (ign_zero cfg = true -> Forall (fun x => x <> (0, 0)) l) ->
  (n = 0%nat \/ (tol_pad cfg = true /\ ign_zero cfg = true)) ->
  rdtci_decode cfg 3 a ([3] ++ recs4 l ++ repeat 0 n)
  = inr {| r_echo := 3; r_memsel := -1; r_status_av := -1; r_sev_av := -1; r_format := -1; r_fgid := -1;
           r_count := Z.of_nat (List.length (snapid_spec l)); r_dtcs := snapid_spec l |}.
Proof. exact snapshot_identification_decode. Qed.
Print Assumptions C02_snapshot_identification.
Theorem C02_snapshot_identification_groups : forall l,
  snapid_spec l = map (fun id => snapid_dtc id (map snd (filter (fun p => fst p =? id) l))) (firsts (map fst l))
  /\ NoDup (firsts (map fst l)) /\ (forall x, In x (firsts (map fst l)) <-> In x (map fst l)).
Proof. exact snapid_spec_groups. Qed.

(* reportDTCSnapshotRecordByRecordNumber (0x05) *)
Theorem C02_snapshots_by_record_number : forall cfg a l n,
  1 <= snap_did cfg <= 8 -> Forall (wf_srec (pc_of cfg)) l -> l <> [] -> (n = 0%nat \/ tol_pad cfg = true) ->
  rdtci_decode cfg 5 a ([5] ++ flat_map (srec (Z.to_nat (snap_did cfg))) l ++ repeat 0 n)
  = inr {| r_echo := 5; r_memsel := -1; r_status_av := -1; r_sev_av := -1; r_format := -1; r_fgid := -1;
           r_count := Z.of_nat (List.length l); r_dtcs := map dtc_of_srec l |}.
Proof. exact snapshots_by_record_decode. Qed.
Print Assumptions C02_snapshots_by_record_number.

(* reportDTCBySeverityMaskRecord (0x08), reportSeverityInformationOfDTC (0x09) *)
Theorem C02_severity : forall cfg sub a av l n,
  In sub [8; 9] -> Forall wf_rec6 l -> (ign_zero cfg = true -> Forall (fun x => x <> (0, 0, 0, 0)) l) ->
  (n = 0%nat \/ (tol_pad cfg = true /\ ign_zero cfg = true)) ->
  rdtci_decode cfg sub a ([sub; av] ++ flat_map rec6 l ++ repeat 0 n)
  = inr {| r_echo := sub; r_memsel := -1; r_status_av := av; r_sev_av := -1; r_format := -1; r_fgid := -1;
           r_count := Z.of_nat (List.length l); r_dtcs := map dtc6 l |}.
Proof. exact severity_decode. Qed.
Print Assumptions C02_severity.

(* reportMirrorMemoryDTCExtDataRecordByDTCNumber (0x10) *)
Theorem C02_mirror_extended_data : forall cfg a dtc st size l n,
  0 <= dtc < 16777216 -> 0 <= st < 256 -> ext_size_of cfg a = inr size -> Forall (wf_ext size) l ->
  (n = 0%nat \/ tol_pad cfg = true) ->
  rdtci_decode cfg 16 a ([16] ++ be_enc 3 dtc ++ [st] ++ flat_map ext_rec l ++ repeat 0 n)
  = inr {| r_echo := 16; r_memsel := -1; r_status_av := -1; r_sev_av := -1; r_format := -1; r_fgid := -1; r_count := 1;
           r_dtcs := [dtc_with (mk_dtc dtc) st 0 (-1) (-1) [] l] |}.
Proof. exact mirror_extdata_decode_pad. Qed.
Print Assumptions C02_mirror_extended_data.

(* reportDTCFaultDetectionCounter (0x14) *)
Theorem C02_fault_detection_counters : forall cfg a l n,
  Forall wf_rec4 l -> (ign_zero cfg = true -> Forall (fun x => x <> (0, 0)) l) ->
  (n = 0%nat \/ (tol_pad cfg = true /\ ign_zero cfg = true)) ->
  rdtci_decode cfg 20 a ([20] ++ recs4 l ++ repeat 0 n)
  = inr {| r_echo := 20; r_memsel := -1; r_status_av := -1; r_sev_av := -1; r_format := -1; r_fgid := -1;
           r_count := Z.of_nat (List.length l); r_dtcs := map dtcf l |}.
Proof. exact fault_counters_decode. Qed.
Print Assumptions C02_fault_detection_counters.

(* reportDTCExtDataRecordByRecordNumber (0x16, 2020 edition): record number 0..0xEF, then (DTC, status, data)* with distinct DTCs *)
Theorem C02_extended_data_by_record_number : forall cfg a recnum size l n,
  2020 <= std cfg -> 0 <= recnum <= 239 -> ext_size_of cfg a = inr size -> Forall (wf_erec size) l -> NoDup (map eid l) ->
  (n = 0%nat \/ (tol_pad cfg = true /\ (ign_zero cfg = true \/ (n < size + 4)%nat))) ->
  rdtci_decode cfg 22 a ([22; recnum] ++ flat_map erec l ++ repeat 0 n)
  = inr {| r_echo := 22; r_memsel := -1; r_status_av := -1; r_sev_av := -1; r_format := -1; r_fgid := -1;
           r_count := Z.of_nat (List.length l); r_dtcs := map (dtc_of_erec recnum) l |}.
Proof. exact extdata_by_record_decode. Qed.
Print Assumptions C02_extended_data_by_record_number.

(* the user-defined-memory variants (0x18, 0x19; 2020 edition): memory selection echo, then as 0x04 / 0x06 *)
Theorem C02_userdef_snapshots : forall cfg a ms dtc st l n,
  2020 <= std cfg -> 0 <= ms < 256 -> 0 <= dtc < 16777216 -> 0 <= st < 256 -> 1 <= snap_did cfg <= 8 -> Forall (wf_snap (pc_of cfg)) l ->
  (n = 0%nat \/ tol_pad cfg = true) ->
  rdtci_decode cfg 24 a ([24; ms] ++ be_enc 3 dtc ++ [st] ++ flat_map (snap_rec (Z.to_nat (snap_did cfg))) l ++ repeat 0 n)
  = inr {| r_echo := 24; r_memsel := ms; r_status_av := -1; r_sev_av := -1; r_format := -1; r_fgid := -1; r_count := 1;
           r_dtcs := [dtc_with (mk_dtc dtc) st 0 (-1) (-1) (flat_map snaps_of l) []] |}.
Proof. exact userdef_snapshots_decode_pad. Qed.
Print Assumptions C02_userdef_snapshots.
Theorem C02_userdef_extended_data : forall cfg a ms dtc st size l n,
  2020 <= std cfg -> 0 <= ms < 256 -> 0 <= dtc < 16777216 -> 0 <= st < 256 -> ext_size_of cfg a = inr size -> Forall (wf_ext size) l ->
  (n = 0%nat \/ tol_pad cfg = true) ->
  rdtci_decode cfg 25 a ([25; ms] ++ be_enc 3 dtc ++ [st] ++ flat_map ext_rec l ++ repeat 0 n)
  = inr {| r_echo := 25; r_memsel := ms; r_status_av := -1; r_sev_av := -1; r_format := -1; r_fgid := -1; r_count := 1;
           r_dtcs := [dtc_with (mk_dtc dtc) st 0 (-1) (-1) [] l] |}.
Proof. exact userdef_extdata_decode_pad. Qed.
Print Assumptions C02_userdef_extended_data.

(* WWH-OBD (0x42, 0x55; 2020 edition): functional group, availability masks, format identifier, (severity, DTC, status)* *)
Theorem C02_wwh_obd_by_mask : forall cfg a fg sa sva fmt l n,
  2020 <= std cfg -> 0 <= fg <= 254 -> (fmt = 4 \/ fmt = 2) ->
  Forall wf_rec5 l -> (ign_zero cfg = true -> Forall (fun x => x <> (0, 0, 0)) l) ->
  (n = 0%nat \/ (tol_pad cfg = true /\ ign_zero cfg = true)) ->
  rdtci_decode cfg 66 a ([66; fg; sa; sva; fmt] ++ flat_map rec5 l ++ repeat 0 n)
  = inr {| r_echo := 66; r_memsel := -1; r_status_av := sa; r_sev_av := Z.land sva 224; r_format := fmt; r_fgid := fg;
           r_count := Z.of_nat (List.length l); r_dtcs := map dtc5 l |}.
Proof. exact wwh_obd_decode. Qed.
Print Assumptions C02_wwh_obd_by_mask.
Theorem C02_wwh_obd_permanent : forall cfg a fg sa fmt l n,
  2020 <= std cfg -> 0 <= fg <= 254 -> (fmt = 4 \/ fmt = 2) ->
  Forall wf_rec5 l -> (ign_zero cfg = true -> Forall (fun x => x <> (0, 0, 0)) l) ->
  (n = 0%nat \/ (tol_pad cfg = true /\ ign_zero cfg = true)) ->
  rdtci_decode cfg 85 a ([85; fg; sa; fmt] ++ flat_map rec5 l ++ repeat 0 n)
  = inr {| r_echo := 85; r_memsel := -1; r_status_av := sa; r_sev_av := -1; r_format := fmt; r_fgid := fg;
           r_count := Z.of_nat (List.length l); r_dtcs := map dtc5 l |}.
Proof. exact wwh_obd_permanent_decode. Qed.
Print Assumptions C02_wwh_obd_permanent.

(* ---- RequestFileTransfer positive responses, every mode of operation (lengthFormatIdentifier 1..8, any maxNumberOfBlockLength that
   fits, sizes in 1..8 bytes), with the padding the service tolerates ---------------------------------------------------------- *)
Theorem C02_file_transfer_add_replace : forall cfg lfid maxlen dfi moop k, 1 <= lfid <= 8 -> 0 <= maxlen < 256 ^ lfid ->
  moop = 1 \/ moop = 3 -> (k = 0%nat \/ tol_pad cfg = true) ->
  rft_interpret_raw cfg (rft_head moop lfid maxlen dfi ++ repeat 0 k) = (moop, inr [moop; maxlen; dfi; -1; -1; -1; -1]).
Proof. exact rft_add_replace_decode. Qed.
Theorem C02_file_transfer_delete : forall cfg k, (k = 0%nat \/ tol_pad cfg = true) ->
  rft_interpret_raw cfg ([2] ++ repeat 0 k) = (2, inr [2; -1; -1; -1; -1; -1; -1]).
Proof. exact rft_delete_decode. Qed.
Theorem C02_file_transfer_read_file : forall cfg lfid maxlen dfi n unc comp k, 1 <= lfid <= 8 -> 0 <= maxlen < 256 ^ lfid -> 1 <= n <= 8 ->
  0 <= unc < 256 ^ n -> 0 <= comp < 256 ^ n -> (k = 0%nat \/ tol_pad cfg = true) ->
  rft_interpret_raw cfg (rft_head 4 lfid maxlen dfi ++ be_enc 2 n ++ be_enc (Z.to_nat n) unc ++ be_enc (Z.to_nat n) comp ++ repeat 0 k)
  = (4, inr [4; maxlen; dfi; unc; comp; -1; -1]).
Proof. exact rft_read_file_decode. Qed.
Print Assumptions C02_file_transfer_read_file.
Theorem C02_file_transfer_read_dir : forall cfg lfid maxlen n unc k, 1 <= lfid <= 8 -> 0 <= maxlen < 256 ^ lfid -> 1 <= n <= 8 ->
  0 <= unc < 256 ^ n -> (k = 0%nat \/ tol_pad cfg = true) ->
  rft_interpret_raw cfg (rft_head 5 lfid maxlen 0 ++ be_enc 2 n ++ be_enc (Z.to_nat n) unc ++ repeat 0 k)
  = (5, inr [5; maxlen; 0; -1; -1; unc; -1]).
Proof. exact rft_read_dir_decode. Qed.
Theorem C02_file_transfer_resume : forall cfg lfid maxlen dfi pos k, 1 <= lfid <= 8 -> 0 <= maxlen < 256 ^ lfid ->
  0 <= pos < 256 ^ 8 -> (k = 0%nat \/ tol_pad cfg = true) ->
  rft_interpret_raw cfg (rft_head 6 lfid maxlen dfi ++ be_enc 8 pos ++ repeat 0 k) = (6, inr [6; maxlen; dfi; -1; -1; -1; pos]).
Proof. exact rft_resume_decode. Qed.

(* ---- Authentication positive responses, every task: the length-prefixed strings (any length below 65536) and the 16-byte algorithm
   indicator come back as sent, each in its own field ------------------------------------------------------------------------- *)
Theorem C02_authentication_plain : forall sub rv r, sub = 0 \/ sub = 4 \/ sub = 8 -> p_data r = [sub; rv] ->
  auth_interpret sub r = inr (sub :: rv :: none7).
Proof. exact auth_plain_decode. Qed.
Theorem C02_authentication_unidirectional : forall a b rv r, Z.of_nat (List.length a) < 65536 -> Z.of_nat (List.length b) < 65536 ->
  p_data r = [1; rv] ++ lenpref a ++ lenpref b ->
  auth_interpret 1 r = inr (1 :: rv :: enc_obytes (Some a) ++ enc_obytes (Some b) ++ enc_obytes None ++ enc_obytes None ++ enc_obytes None
                              ++ enc_obytes None ++ enc_obytes None).
Proof. exact auth_unidirectional_decode. Qed.
Theorem C02_authentication_bidirectional : forall a b c e rv r,
  Z.of_nat (List.length a) < 65536 -> Z.of_nat (List.length b) < 65536 -> Z.of_nat (List.length c) < 65536 -> Z.of_nat (List.length e) < 65536 ->
  p_data r = [2; rv] ++ lenpref a ++ lenpref b ++ lenpref c ++ lenpref e ->
  auth_interpret 2 r = inr (2 :: rv :: enc_obytes (Some a) ++ enc_obytes (Some e) ++ enc_obytes (Some b) ++ enc_obytes (Some c) ++ enc_obytes None
                              ++ enc_obytes None ++ enc_obytes None).
Proof. exact auth_bidirectional_decode. Qed.
Print Assumptions C02_authentication_bidirectional.
Theorem C02_authentication_proof_of_ownership : forall a rv r, Z.of_nat (List.length a) < 65536 ->
  p_data r = [3; rv] ++ lenpref a ->
  auth_interpret 3 r = inr (3 :: rv :: enc_obytes None ++ enc_obytes None ++ enc_obytes None ++ enc_obytes None ++ enc_obytes (Some a)
                              ++ enc_obytes None ++ enc_obytes None).
Proof. exact auth_proof_of_ownership_decode. Qed.
Theorem C02_authentication_request_challenge : forall a b al rv r, Z.of_nat (List.length a) < 65536 -> Z.of_nat (List.length b) < 65536 ->
  List.length al = 16%nat -> p_data r = [5; rv] ++ al ++ lenpref a ++ lenpref b ->
  auth_interpret 5 r = inr (5 :: rv :: enc_obytes (Some a) ++ enc_obytes None ++ enc_obytes None ++ enc_obytes None ++ enc_obytes None
                              ++ enc_obytes (Some al) ++ enc_obytes (Some b)).
Proof. exact auth_request_challenge_decode. Qed.
Theorem C02_authentication_verify_unidirectional : forall a al rv r, Z.of_nat (List.length a) < 65536 ->
  List.length al = 16%nat -> p_data r = [6; rv] ++ al ++ lenpref a ->
  auth_interpret 6 r = inr (6 :: rv :: enc_obytes None ++ enc_obytes None ++ enc_obytes None ++ enc_obytes None ++ enc_obytes (Some a)
                              ++ enc_obytes (Some al) ++ enc_obytes None).
Proof. exact auth_verify_pown_unidirectional_decode. Qed.
Theorem C02_authentication_verify_bidirectional : forall a b al rv r, Z.of_nat (List.length a) < 65536 -> Z.of_nat (List.length b) < 65536 ->
  List.length al = 16%nat -> p_data r = [7; rv] ++ al ++ lenpref a ++ lenpref b ->
  auth_interpret 7 r = inr (7 :: rv :: enc_obytes None ++ enc_obytes None ++ enc_obytes None ++ enc_obytes (Some a) ++ enc_obytes (Some b)
                              ++ enc_obytes (Some al) ++ enc_obytes None).
Proof. exact auth_verify_pown_bidirectional_decode. Qed.

(* Every positive-response decoder of the library now has its end-to-end statement (session timing: C10_scaled; memory echo: C14_echo;
   download / upload block length: C02_block_length; DIDs: C02_did_values; ReadDTCInformation: above).  Report types 0x1A and 0x56 have
   no decoder in this version of the library (the response is returned undecoded). *)

(* ---- the code is the model (regenerated each run): what each of these client methods does with a positive response carrying the data
   bytes d - the service's interpret_response and the method's echo comparisons, executed on symbolic arguments and on d of every
   length class (tools/symtrans.py, Gen/Fn_SimpleInt.v) - is the model's interpret function, for every call whose request was built ---- *)
From UDS Require Import Gen.Fn_SimpleReq Gen.Fn_SimpleInt Model.Svc_Simple Proofs.Tie_simple_common Proofs.Tie_simple_int.

Theorem C02_code_ecu_reset_interpret : forall t d r p, fn_ecu_reset_request t = inr p -> d <> [] -> p_data r = d ->
  fn_ecu_reset_interpret t d = er_interpret t r.
Proof. exact tie_ecu_reset_interpret. Qed.
Print Assumptions C02_code_ecu_reset_interpret.
Theorem C02_code_routine_control_interpret : forall rid ct data d r p, fn_routine_control_request rid ct data = inr p -> d <> [] -> p_data r = d ->
  fn_routine_control_interpret rid ct data d = rc_interpret rid ct r.
Proof. exact tie_routine_control_interpret. Qed.
Print Assumptions C02_code_routine_control_interpret.
Theorem C02_code_change_session_interpret : forall cfg sn d r p, std cfg = 2020 -> fn_change_session_request sn = inr p -> d <> [] -> p_data r = d ->
  fn_change_session_interpret sn d = dsc_interpret cfg sn r.
Proof. exact tie_change_session_interpret. Qed.
Print Assumptions C02_code_change_session_interpret.
Theorem C02_code_change_session_2006_interpret : forall cfg sn d r p, std cfg = 2006 -> fn_change_session_2006_request sn = inr p -> d <> [] -> p_data r = d ->
  fn_change_session_2006_interpret sn d = dsc_interpret cfg sn r.
Proof. exact tie_change_session_2006_interpret. Qed.
Print Assumptions C02_code_change_session_2006_interpret.
Theorem C02_code_request_seed_interpret : forall level data d r p, fn_request_seed_request level data = inr p -> d <> [] -> p_data r = d ->
  fn_request_seed_interpret level data d = sa_interpret false level r.
Proof. exact tie_request_seed_interpret. Qed.
Print Assumptions C02_code_request_seed_interpret.
Theorem C02_code_send_key_interpret : forall level key d r p, fn_send_key_request level key = inr p -> d <> [] -> p_data r = d ->
  fn_send_key_interpret level key d = sa_interpret true level r.
Proof. exact tie_send_key_interpret. Qed.
Print Assumptions C02_code_send_key_interpret.
Theorem C02_code_access_timing_parameter_interpret : forall a rc d r p, fn_access_timing_parameter_request a rc = inr p -> d <> [] -> p_data r = d ->
  fn_access_timing_parameter_interpret a rc d = atp_interpret a r.
Proof. exact tie_access_timing_parameter_interpret. Qed.
Print Assumptions C02_code_access_timing_parameter_interpret.
Theorem C02_code_transfer_data_interpret : forall sq data d r p, fn_transfer_data_request sq data = inr p -> d <> [] -> p_data r = d ->
  fn_transfer_data_interpret sq data d = td_interpret sq r.
Proof. exact tie_transfer_data_interpret. Qed.
Print Assumptions C02_code_transfer_data_interpret.
Theorem C02_code_control_dtc_setting_interpret : forall t data d r p, fn_control_dtc_setting_request t data = inr p -> d <> [] -> p_data r = d ->
  fn_control_dtc_setting_interpret t data d = echo1_interpret t r.
Proof. exact tie_control_dtc_setting_interpret. Qed.
Print Assumptions C02_code_control_dtc_setting_interpret.
Theorem C02_code_tester_present_interpret : forall d r, d <> [] -> p_data r = d -> fn_tester_present_interpret d = tp_interpret r.
Proof. exact tie_tester_present_interpret. Qed.
Print Assumptions C02_code_tester_present_interpret.
