(* placeholder until the decode proofs are written *)
From Coq Require Import ZArith.
Theorem C02_placeholder : True. Proof. exact I. Qed.
