(* C02 - well-formed positive responses decode to exactly the values the server encoded.  Statements only.
   Reference encoders (rec4 / recs4, rec5, enc_did / enc_dids, lenpref, big-endian fields) are in Proofs/C02_lemmas.v. *)
From Coq Require Import ZArith List Bool String.
From UDS Require Import Lib.Bytes Lib.ErrM Lib.PyOps Model.Message Model.Client Model.Services Model.Svc_Memory Model.Svc_Did
  Model.Svc_File Model.Svc_Dtc Proofs.Bytes_lemmas Proofs.History_lemmas Proofs.C02_lemmas Proofs.C02b_lemmas Proofs.C14_lemmas.
Import ListNotations.
Open Scope Z_scope.

(* multi-byte integers are read big-endian and unsigned, for every width and value *)
Theorem C02_unsigned_fields : forall n v, 0 <= v < 256 ^ Z.of_nat n -> be_dec (be_enc n v) = v.
Proof. exact be_dec_enc. Qed.
Theorem C02_field_at_cursor : forall pre n v post, 0 <= v < 256 ^ Z.of_nat n ->
  take_num (pre ++ be_enc n v ++ post) (List.length pre) n = inr v.
Proof. exact take_num_decode. Qed.
Print Assumptions C02_field_at_cursor.

(* maxNumberOfBlockLength of RequestDownload / RequestUpload: length nibble 0..8, any value incl. the top bit *)
Theorem C02_block_length : forall r n v extra, 0 <= n <= 8 -> 0 <= v < 256 ^ n ->
  p_data r = (16 * n) :: be_enc (Z.to_nat n) v ++ extra -> rud_interpret r = inr [v].
Proof. exact rud_decode. Qed.
Print Assumptions C02_block_length.

(* P2 / P2* of a session change: C10_scaled.  Echo of WriteMemoryByAddress: C14_echo. *)

(* length-prefixed byte strings of Authentication responses, at any position *)
Theorem C02_length_prefixed : forall pre b post, Z.of_nat (List.length b) < 65536 ->
  extract_param (pre ++ lenpref b ++ post) (List.length pre) = inr (b, (List.length pre + 2 + List.length b)%nat).
Proof. exact extract_param_decode. Qed.
Print Assumptions C02_length_prefixed.

(* (DTC, status) record lists of any length: order and count kept, 24-bit identifier and status at the right offsets *)
Theorem C02_dtc_records : forall pc sub l pre acc fuel,
  Forall wf_rec4 l -> (pc_ign pc = true -> Forall (fun x => x <> (0, 0)) l) ->
  (List.length l < fuel)%nat ->
  loop_records fuel pc sub false (pre ++ recs4 l) (List.length pre) acc = inr (acc ++ map dtc4 l).
Proof. exact loop_records_decode. Qed.
Print Assumptions C02_dtc_records.

(* WWH-OBD (severity, DTC, status) record lists *)
Theorem C02_wwh_obd_records : forall pc l acc fuel n,
  Forall wf_rec5 l -> (pc_ign pc = true -> Forall (fun x => x <> (0, 0, 0)) l) ->
  (List.length l + n < fuel)%nat -> (n = 0%nat \/ (pc_tol pc = true /\ pc_ign pc = true)) ->
  loop_wwh fuel pc (flat_map rec5 l ++ repeat 0 n) acc = inr (acc ++ map dtc5 l).
Proof. exact loop_wwh_decode. Qed.
Print Assumptions C02_wwh_obd_records.

(* DID values of a ReadDataByIdentifier response: any number of distinct identifiers with fixed-length codecs *)
Theorem C02_did_values : forall pc req l pre vals fuel,
  Forall (wf_did pc) l -> Forall (fun x => fst x <> 0 \/ pc_tol pc = false \/ lookup 0 (pc_dids pc) <> None) l ->
  NoDup (map fst vals ++ map fst l) -> (List.length l < fuel)%nat ->
  rdbi_loop fuel pc req (pre ++ enc_dids l) (List.length pre) vals = inr (vals ++ l).
Proof. exact rdbi_loop_decode. Qed.
Print Assumptions C02_did_values.

(* snapshot records of reportDTCSnapshotRecordByDTCNumber (0x04), every edition, dtc_snapshot_did_size 1..8: any number of
   records, each with 1..255 DIDs of configured fixed-length codecs: DTC, status, every record number, DID and value *)
Theorem C02_snapshots_by_dtc : forall cfg a dtc st l,
  0 <= dtc < 16777216 -> 0 <= st < 256 -> 1 <= snap_did cfg <= 8 -> Forall (wf_snap (pc_of cfg)) l ->
  rdtci_decode cfg 4 a ([4] ++ be_enc 3 dtc ++ [st] ++ flat_map (snap_rec (Z.to_nat (snap_did cfg))) l)
  = inr {| r_echo := 4; r_memsel := -1; r_status_av := -1; r_sev_av := -1; r_format := -1; r_fgid := -1; r_count := 1;
           r_dtcs := [dtc_with (mk_dtc dtc) st 0 (-1) (-1) (flat_map snaps_of l) []] |}.
Proof. exact snapshots_by_dtc_decode. Qed.
Print Assumptions C02_snapshots_by_dtc.

(* snapshot records by record number (0x05): (record number, DTC, status, DIDs)* *)
Theorem C02_snapshots_by_record : forall pc l pre acc fuel,
  Forall (wf_srec pc) l -> (List.length l < fuel)%nat ->
  loop_snap_by_rec fuel pc (pre ++ flat_map (srec (Z.to_nat (pc_snap pc))) l ++ repeat 0 0) (List.length pre) acc
  = inr (acc ++ map dtc_of_srec l).
Proof. intros pc l pre acc fuel Hw Hf. exact (loop_snap_by_rec_decode pc l pre acc fuel 0 Hw Hf (or_introl eq_refl)). Qed.
Print Assumptions C02_snapshots_by_record.

(* extended data of reportDTCExtendedDataRecordByDTCNumber (0x06): any number of (record number, data of the configured size) *)
Theorem C02_extended_data_by_dtc : forall cfg a dtc st size l,
  0 <= dtc < 16777216 -> 0 <= st < 256 -> ext_size_of cfg a = inr size -> Forall (wf_ext size) l ->
  rdtci_decode cfg 6 a ([6] ++ be_enc 3 dtc ++ [st] ++ flat_map ext_rec l)
  = inr {| r_echo := 6; r_memsel := -1; r_status_av := -1; r_sev_av := -1; r_format := -1; r_fgid := -1; r_count := 1;
           r_dtcs := [dtc_with (mk_dtc dtc) st 0 (-1) (-1) [] l] |}.
Proof. exact extdata_by_dtc_decode. Qed.
Print Assumptions C02_extended_data_by_dtc.

(* extended data by record number (0x16): (DTC, status, data)* with distinct DTCs *)
Theorem C02_extended_data_by_record : forall pc size recnum l pre fuel,
  Forall (wf_erec size) l -> NoDup (map eid l) -> (List.length l < fuel)%nat ->
  loop_ext_by_rec fuel pc size recnum (pre ++ flat_map erec l ++ repeat 0 0) (List.length pre) [] = inr (map (dtc_of_erec recnum) l).
Proof.
  intros pc size recnum l pre fuel Hw Hn Hf.
  exact (loop_ext_by_rec_decode pc size recnum l pre [] fuel 0 Hw Hn (fun y Hy => match Hy with end) Hf (or_introl eq_refl)).
Qed.
Print Assumptions C02_extended_data_by_record.

(* severity records (0x08, 0x09): severity bits 5..7, functional unit, DTC, status; fault counters (0x14) *)
Theorem C02_severity_records : forall pc sub l pre acc fuel,
  Forall wf_rec6 l -> (pc_ign pc = true -> Forall (fun x => x <> (0, 0, 0, 0)) l) -> (List.length l + 0 < fuel)%nat ->
  loop_records fuel pc sub true (pre ++ flat_map rec6 l ++ repeat 0 0) (List.length pre) acc = inr (acc ++ map dtc6 l).
Proof. intros pc sub l pre acc fuel Hw Hz Hf. exact (loop_records6_decode pc sub l pre acc 0 fuel Hw Hz (or_introl eq_refl) Hf). Qed.
Print Assumptions C02_severity_records.
Theorem C02_fault_counters : forall pc l pre acc fuel,
  Forall wf_rec4 l -> (pc_ign pc = true -> Forall (fun x => x <> (0, 0)) l) -> (List.length l + 0 < fuel)%nat ->
  loop_pairs fuel pc true (pre ++ recs4 l ++ repeat 0 0) (List.length pre) acc = inr (acc ++ map dtcf l).
Proof. intros pc l pre acc fuel Hw Hz Hf. exact (loop_fault_counters_decode pc l pre acc 0 fuel Hw Hz (or_introl eq_refl) Hf). Qed.
Print Assumptions C02_fault_counters.

(* C02_partial: the user-defined-memory variants 0x18 / 0x19 (one more header byte), the snapshot-identification pairs (0x03),
   the RequestFileTransfer composite and the Authentication task layouts are decoded field by field by the functions whose
   primitive steps are proved above (take_num, extract_param, sub3/at_, the loops); their end-to-end statement is checked by the
   structured-valid correspondence against the reference server encoder tools/harness/respspec.py, not yet by a Coq theorem. *)
