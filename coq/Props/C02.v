(* C02 - well-formed positive responses decode to exactly the values the server encoded.  Statements only.
   Reference encoders (rec4 / recs4, rec5, enc_did / enc_dids, lenpref, big-endian fields) are in Proofs/C02_lemmas.v. *)
From Coq Require Import ZArith List Bool String.
From UDS Require Import Lib.Bytes Lib.ErrM Lib.PyOps Model.Message Model.Client Model.Services Model.Svc_Memory Model.Svc_Did
  Model.Svc_File Model.Svc_Dtc Proofs.Bytes_lemmas Proofs.History_lemmas Proofs.C02_lemmas Proofs.C14_lemmas.
Import ListNotations.
Open Scope Z_scope.

(* multi-byte integers are read big-endian and unsigned, for every width and value *)
Theorem C02_unsigned_fields : forall n v, 0 <= v < 256 ^ Z.of_nat n -> be_dec (be_enc n v) = v.
Proof. exact be_dec_enc. Qed.
Theorem C02_field_at_cursor : forall pre n v post, 0 <= v < 256 ^ Z.of_nat n ->
  take_num (pre ++ be_enc n v ++ post) (List.length pre) n = inr v.
Proof. exact take_num_decode. Qed.
Print Assumptions C02_field_at_cursor.

(* maxNumberOfBlockLength of RequestDownload / RequestUpload: length nibble 0..8, any value incl. the top bit *)
Theorem C02_block_length : forall r n v extra, 0 <= n <= 8 -> 0 <= v < 256 ^ n ->
  p_data r = (16 * n) :: be_enc (Z.to_nat n) v ++ extra -> rud_interpret r = inr [v].
Proof. exact rud_decode. Qed.
Print Assumptions C02_block_length.

(* P2 / P2* of a session change: C10_scaled.  Echo of WriteMemoryByAddress: C14_echo. *)

(* length-prefixed byte strings of Authentication responses, at any position *)
Theorem C02_length_prefixed : forall pre b post, Z.of_nat (List.length b) < 65536 ->
  extract_param (pre ++ lenpref b ++ post) (List.length pre) = inr (b, (List.length pre + 2 + List.length b)%nat).
Proof. exact extract_param_decode. Qed.
Print Assumptions C02_length_prefixed.

(* (DTC, status) record lists of any length: order and count kept, 24-bit identifier and status at the right offsets *)
Theorem C02_dtc_records : forall pc sub l pre acc fuel,
  Forall wf_rec4 l -> (pc_ign pc = true -> Forall (fun x => x <> (0, 0)) l) ->
  (List.length l < fuel)%nat ->
  loop_records fuel pc sub false (pre ++ recs4 l) (List.length pre) acc = inr (acc ++ map dtc4 l).
Proof. exact loop_records_decode. Qed.
Print Assumptions C02_dtc_records.

(* WWH-OBD (severity, DTC, status) record lists *)
Theorem C02_wwh_obd_records : forall pc l acc fuel n,
  Forall wf_rec5 l -> (pc_ign pc = true -> Forall (fun x => x <> (0, 0, 0)) l) ->
  (List.length l + n < fuel)%nat -> (n = 0%nat \/ (pc_tol pc = true /\ pc_ign pc = true)) ->
  loop_wwh fuel pc (flat_map rec5 l ++ repeat 0 n) acc = inr (acc ++ map dtc5 l).
Proof. exact loop_wwh_decode. Qed.
Print Assumptions C02_wwh_obd_records.

(* DID values of a ReadDataByIdentifier response: any number of distinct identifiers with fixed-length codecs *)
Theorem C02_did_values : forall pc req l pre vals fuel,
  Forall (wf_did pc) l -> Forall (fun x => fst x <> 0 \/ pc_tol pc = false \/ lookup 0 (pc_dids pc) <> None) l ->
  NoDup (map fst vals ++ map fst l) -> (List.length l < fuel)%nat ->
  rdbi_loop fuel pc req (pre ++ enc_dids l) (List.length pre) vals = inr (vals ++ l).
Proof. exact rdbi_loop_decode. Qed.
Print Assumptions C02_did_values.

(* C02_partial: the snapshot, extended-data, severity-record and fault-counter decoders of ReadDTCInformation, the
   RequestFileTransfer composite and the Authentication task layouts are decoded field by field by the functions whose
   primitive steps are proved above (take_num, extract_param, sub3/at_); their end-to-end statement is checked by the
   structured-valid correspondence against the reference server encoder tools/harness/respspec.py, not yet by a Coq theorem. *)
