(* C10 - server P2/P2* are adopted only from an accepted session change, correctly scaled. Statements only. *)
From Coq Require Import ZArith List Bool String.
From UDS Require Import Lib.Bytes Lib.ErrM Spec.Timing Model.Message Model.Client Model.Services Model.History
  Proofs.C05_lemmas Proofs.Client_lemmas Proofs.History_lemmas.
Import ListNotations.
Open Scope Z_scope.

(* an accepted reply under >= 2013 is exactly echo + two 16-bit fields; the values handed on are
   first field x 1 ms and second field x 10 ms (in microseconds), for all 2^32 pairs *)
Theorem C10_scaled : forall cfg session r sd,
  2013 <= std cfg -> dsc_interpret cfg session r = inr sd ->
  exists a1 a0 b1 b0, p_data r = [session; a1; a0; b1; b0] /\
    sd = session :: be_dec [a1; a0] * 1000 :: be_dec [b1; b0] * 10000 :: enc_bytes [a1; a0; b1; b0].
Proof. exact dsc_accepted_shape. Qed.
Print Assumptions C10_scaled.

(* adoption: only when the call succeeded, the edition is > 2006 and server timing is enabled *)
Theorem C10_adopt : forall cfg st session now s,
  let '(res, st', _, _, _) := change_session cfg st session now s in
  match res with
  | COk (Some (r, sd)) =>
    if (2006 <? std cfg) && use_srv cfg then
      match sd with
      | _ :: a :: b :: _ => timing_of st' = (Some a, Some b) /\ flags_of st' = flags_of st
      | _ => st' = st
      end
    else st' = st
  | _ => st' = st     (* negative, invalid, unexpected, timeout, suppressed: unchanged *)
  end.
Proof. exact change_session_timing. Qed.
Print Assumptions C10_adopt.

Theorem C10_unchanged : forall cfg st session now s,
  (std cfg <= 2006 \/ use_srv cfg = false) ->
  let '(_, st', _, _, _) := change_session cfg st session now s in st' = st.
Proof. exact change_session_unchanged. Qed.
Print Assumptions C10_unchanged.

(* no other call changes the timing in force *)
Theorem C10_other_calls : forall cfg st c now s,
  match c with CChangeSession _ => True | _ =>
    let '(_, st', _, _, _) := run_inner cfg st c now s in st' = st end.
Proof. exact run_inner_timing. Qed.
Print Assumptions C10_other_calls.

(* the adopted values are what every later request waits with: first window min(P2_server, overall), then
   P2*_server, each capped by the deadline *)
Theorem C10_used : forall cfg st r now s,
  0 <= eff_p2 cfg st -> 0 <= eff_p2s cfg st -> (forall o, req_to cfg = Some o -> 0 <= o) ->
  check_waits (spec_deadline now (req_to cfg)) (first_window (eff_p2 cfg st) (req_to cfg)) (eff_p2s cfg st)
              (wl_trace (send_request cfg st r (-1) now s)).
Proof. exact send_request_waits. Qed.
Print Assumptions C10_used.

(* ---- the code is the model (regenerated each run): the real Client.send_request executed on a symbolic clock (tools/symtrans.py,
   Gen/Fn_SendRequest.v) - after server timings were adopted ---- *)
From UDS Require Import Gen.Fn_SendRequest Model.Services Proofs.Tie_send_common Proofs.Tie_send_server.

Theorem C10_code_send_request_server_silence : forall cfg T S2 S2S P2 P2S now, timing cfg (Some T) P2 P2S ->
  fn_send_request_server_silence T S2 S2S P2 P2S now = ret (obs_sr (send_request cfg (set_timing st_init S2 S2S) tp_req (-1) now [])).
Proof. exact tie_send_request_server_silence. Qed.
Print Assumptions C10_code_send_request_server_silence.
Theorem C10_code_send_request_server_no_overall_silence : forall cfg S2 S2S P2 P2S now, timing cfg None P2 P2S ->
  fn_send_request_server_no_overall_silence S2 S2S P2 P2S now = ret (obs_sr (send_request cfg (set_timing st_init S2 S2S) tp_req (-1) now [])).
Proof. exact tie_send_request_server_no_overall_silence. Qed.
Print Assumptions C10_code_send_request_server_no_overall_silence.
Theorem C10_code_send_request_server_P : forall cfg T S2 S2S P2 P2S now a1, timing cfg (Some T) P2 P2S -> now < a1 ->
  fn_send_request_server_P T S2 S2S P2 P2S now a1 = ret (obs_sr (send_request cfg (set_timing st_init S2 S2S) tp_req (-1) now [(a1, Frame [126; 0])])).
Proof. exact tie_send_request_server_P. Qed.
Print Assumptions C10_code_send_request_server_P.
Theorem C10_code_send_request_server_no_overall_P : forall cfg S2 S2S P2 P2S now a1, timing cfg None P2 P2S -> now < a1 ->
  fn_send_request_server_no_overall_P S2 S2S P2 P2S now a1 = ret (obs_sr (send_request cfg (set_timing st_init S2 S2S) tp_req (-1) now [(a1, Frame [126; 0])])).
Proof. exact tie_send_request_server_no_overall_P. Qed.
Print Assumptions C10_code_send_request_server_no_overall_P.
Theorem C10_code_send_request_server_WP : forall cfg T S2 S2S P2 P2S now a1 a2, timing cfg (Some T) P2 P2S -> now < a1 ->
  fn_send_request_server_WP T S2 S2S P2 P2S now a1 a2 = ret (obs_sr (send_request cfg (set_timing st_init S2 S2S) tp_req (-1) now [(a1, Frame [127; 62; 120]); (a2, Frame [126; 0])])).
Proof. exact tie_send_request_server_WP. Qed.
Print Assumptions C10_code_send_request_server_WP.
Theorem C10_code_send_request_server_no_overall_WP : forall cfg S2 S2S P2 P2S now a1 a2, timing cfg None P2 P2S -> now < a1 ->
  fn_send_request_server_no_overall_WP S2 S2S P2 P2S now a1 a2 = ret (obs_sr (send_request cfg (set_timing st_init S2 S2S) tp_req (-1) now [(a1, Frame [127; 62; 120]); (a2, Frame [126; 0])])).
Proof. exact tie_send_request_server_no_overall_WP. Qed.
Print Assumptions C10_code_send_request_server_no_overall_WP.
Theorem C10_code_send_request_server_W : forall cfg T S2 S2S P2 P2S now a1, timing cfg (Some T) P2 P2S -> now < a1 ->
  fn_send_request_server_W T S2 S2S P2 P2S now a1 = ret (obs_sr (send_request cfg (set_timing st_init S2 S2S) tp_req (-1) now [(a1, Frame [127; 62; 120])])).
Proof. exact tie_send_request_server_W. Qed.
Print Assumptions C10_code_send_request_server_W.
Theorem C10_code_send_request_server_no_overall_W : forall cfg S2 S2S P2 P2S now a1, timing cfg None P2 P2S -> now < a1 ->
  fn_send_request_server_no_overall_W S2 S2S P2 P2S now a1 = ret (obs_sr (send_request cfg (set_timing st_init S2 S2S) tp_req (-1) now [(a1, Frame [127; 62; 120])])).
Proof. exact tie_send_request_server_no_overall_W. Qed.
Print Assumptions C10_code_send_request_server_no_overall_W.
Theorem C10_code_send_request_percall_server_W : forall cfg T Tp S2 S2S P2 P2S now a1, timing cfg (Some T) P2 P2S -> 0 <= Tp -> now < a1 ->
  fn_send_request_percall_server_W T Tp S2 S2S P2 P2S now a1 = ret (obs_sr (send_request cfg (set_timing st_init S2 S2S) tp_req Tp now [(a1, Frame [127; 62; 120])])).
Proof. exact tie_send_request_percall_server_W. Qed.
Print Assumptions C10_code_send_request_percall_server_W.
Theorem C10_code_send_request_percall_server_WP : forall cfg T Tp S2 S2S P2 P2S now a1 a2, timing cfg (Some T) P2 P2S -> 0 <= Tp -> now < a1 ->
  fn_send_request_percall_server_WP T Tp S2 S2S P2 P2S now a1 a2 = ret (obs_sr (send_request cfg (set_timing st_init S2 S2S) tp_req Tp now [(a1, Frame [127; 62; 120]); (a2, Frame [126; 0])])).
Proof. exact tie_send_request_percall_server_WP. Qed.
Print Assumptions C10_code_send_request_percall_server_WP.

(* ---- the code is the model: what change_session leaves in the client's session timing (tools/symtrans.py, Gen/Fn_Timing.v) ---- *)
From UDS Require Import Gen.Fn_Timing Proofs.Tie_timing.
Theorem C10_code_timing_adopted_on_success_only : forall cfg sn d r, std cfg = 2020 -> use_srv cfg = true -> d <> [] -> p_data r = d ->
  fn_change_session_timing sn d = ret (timing_after cfg sn r).
Proof. exact tie_change_session_timing. Qed.
Print Assumptions C10_code_timing_adopted_on_success_only.
Theorem C10_code_timing_2006 : forall cfg sn d r, std cfg = 2006 -> d <> [] -> p_data r = d ->
  fn_change_session_timing_2006 sn d = ret (timing_after cfg sn r).
Proof. exact tie_change_session_timing_2006. Qed.
Print Assumptions C10_code_timing_2006.
Theorem C10_code_timing_not_used : forall cfg sn d r, std cfg = 2020 -> use_srv cfg = false -> d <> [] -> p_data r = d ->
  fn_change_session_timing_unused sn d = ret (timing_after cfg sn r).
Proof. exact tie_change_session_timing_unused. Qed.
Print Assumptions C10_code_timing_not_used.
