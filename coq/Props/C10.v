(* C10 - server P2/P2* are adopted only from an accepted session change, correctly scaled. Statements only. *)
From Coq Require Import ZArith List Bool String.
From UDS Require Import Lib.Bytes Lib.ErrM Spec.Timing Model.Message Model.Client Model.Services Model.History
  Proofs.C05_lemmas Proofs.Client_lemmas Proofs.History_lemmas.
Import ListNotations.
Open Scope Z_scope.

(* an accepted reply under >= 2013 is exactly echo + two 16-bit fields; the values handed on are
   first field x 1 ms and second field x 10 ms (in microseconds), for all 2^32 pairs *)
Theorem C10_scaled : forall cfg session r sd,
  2013 <= std cfg -> dsc_interpret cfg session r = inr sd ->
  exists a1 a0 b1 b0, p_data r = [session; a1; a0; b1; b0] /\
    sd = session :: be_dec [a1; a0] * 1000 :: be_dec [b1; b0] * 10000 :: enc_bytes [a1; a0; b1; b0].
Proof. exact dsc_accepted_shape. Qed.
Print Assumptions C10_scaled.

(* adoption: only when the call succeeded, the edition is > 2006 and server timing is enabled *)
Theorem C10_adopt : forall cfg st session now s,
  let '(res, st', _, _, _) := change_session cfg st session now s in
  match res with
  | COk (Some (r, sd)) =>
    if (2006 <? std cfg) && use_srv cfg then
      match sd with
      | _ :: a :: b :: _ => timing_of st' = (Some a, Some b) /\ flags_of st' = flags_of st
      | _ => st' = st
      end
    else st' = st
  | _ => st' = st     (* negative, invalid, unexpected, timeout, suppressed: unchanged *)
  end.
Proof. exact change_session_timing. Qed.
Print Assumptions C10_adopt.

Theorem C10_unchanged : forall cfg st session now s,
  (std cfg <= 2006 \/ use_srv cfg = false) ->
  let '(_, st', _, _, _) := change_session cfg st session now s in st' = st.
Proof. exact change_session_unchanged. Qed.
Print Assumptions C10_unchanged.

(* no other call changes the timing in force *)
Theorem C10_other_calls : forall cfg st c now s,
  match c with CChangeSession _ => True | _ =>
    let '(_, st', _, _, _) := run_inner cfg st c now s in st' = st end.
Proof. exact run_inner_timing. Qed.
Print Assumptions C10_other_calls.

(* the adopted values are what every later request waits with: first window min(P2_server, overall), then
   P2*_server, each capped by the deadline *)
Theorem C10_used : forall cfg st r now s,
  0 <= eff_p2 cfg st -> 0 <= eff_p2s cfg st -> (forall o, req_to cfg = Some o -> 0 <= o) ->
  check_waits (spec_deadline now (req_to cfg)) (first_window (eff_p2 cfg st) (req_to cfg)) (eff_p2s cfg st)
              (wl_trace (send_request cfg st r (-1) now s)).
Proof. exact send_request_waits. Qed.
Print Assumptions C10_used.
