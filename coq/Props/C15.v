(* C15 - one call, one flushed-then-sent frame; stale frames are never taken as answers. Statements only. *)
From Coq Require Import ZArith List Bool String.
From UDS Require Import Lib.Bytes Lib.ErrM Model.Message Model.Client Model.Services Model.History Model.Conn
  Proofs.C05_lemmas Proofs.Client_lemmas Proofs.History_lemmas.
Import ListNotations.
Open Scope Z_scope.

(* send_request: flush, then exactly one send, then only waits/callbacks: no second send whatever the outcome
   (timeout, negative, invalid, unexpected, connection fault), i.e. no retransmission *)
Theorem C15_shape : forall cfg st r to now s,
  let x := send_request cfg st r to now s in
  match wire_payload st r with
  | inr p => exists tr, wl_trace x = EvF :: EvS p :: tr /\ count_s tr = O /\ count_f tr = O /\ count_algo tr = O /\ cb_then_w tr
  | inl e => (wl_trace x = [] \/ wl_trace x = [EvF]) /\ wl_res x = CErr e None
  end.
Proof. exact send_request_shape. Qed.
Print Assumptions C15_shape.

(* every single-request client method: at most one frame; nothing at all when the arguments are rejected *)
Theorem C15_one_frame : forall cfg st mk interp post now s,
  let '(_, _, _, _, tr) := single_request cfg st mk interp post now s in
  (count_s tr <= 1)%nat /\ count_algo tr = O /\ (count_s tr <= count_f tr)%nat /\ cb_then_w tr /\
  match mk with
  | inl _ => tr = []
  | inr rq => match wire_payload st rq with inr p => sent tr = [p] | inl _ => sent tr = [] end
  end.
Proof. exact single_request_trace. Qed.
Print Assumptions C15_one_frame.

(* frames that arrived before the request was sent (any number, any content) do not influence the call *)
Theorem C15_stale : forall cfg st r to now stale s,
  Forall (fun x => fst x <= now) stale -> q_svc r <> None ->
  send_request cfg st r to now (stale ++ s) = send_request cfg st r to now s.
Proof. exact send_request_stale. Qed.
Print Assumptions C15_stale.

(* the only client state is the adopted timing and the context-manager flags; calls never change the flags,
   and only change_session changes the timing: so a call's behaviour depends on earlier calls only through
   the adopted session timing *)
Theorem C15_flags : forall cfg st c now s,
  let '(_, st', _, _, _) := run_inner cfg st c now s in flags_of st' = flags_of st.
Proof. exact run_inner_flags. Qed.
Print Assumptions C15_flags.
Theorem C15_timing : forall cfg st c now s,
  match c with CChangeSession _ => True | _ =>
    let '(_, st', _, _, _) := run_inner cfg st c now s in st' = st end.
Proof. exact run_inner_timing. Qed.
Print Assumptions C15_timing.

(* a connection whose send() raises after it has written the frame: the call ends with that error; the trace is the
   flush, then exactly one send, then nothing (no second attempt, no read); the client state is unchanged *)
Theorem C15_send_fault : forall cfgv st now c code pre,
  upto_first_send (trace_of (run_call (cfg_of cfgv) st c now [])) = Some pre ->
  step_op cfgv st now (OCallSendFault c code) = (2 :: code :: 0 :: enc_trace pre ++ [now], cfgv, st, now)
  /\ exists l p, pre = l ++ [EvS p] /\ forallb (fun e => negb (is_send e)) l = true.
Proof. exact send_fault_one_frame. Qed.
Print Assumptions C15_send_fault.

(* BaseConnection.send hands the payload to the transport exactly once, whatever the transport then raises *)
Theorem C15_base_send_once : forall payload fault, base_send true payload fault = ([payload], fault).
Proof. reflexivity. Qed.
Print Assumptions C15_base_send_once.

(* ---- the code is the model (regenerated each run): the real Client.send_request executed on a symbolic clock against a connection whose
   reception queue holds whatever arrived before the call (tools/symtrans.py, Gen/Fn_SendRequest.v): one empty_rxqueue(), then one send() of
   the request's bytes, and a frame that arrived before the call is never taken for the answer - for all instants, no hypothesis ---- *)
From UDS Require Import Gen.Fn_SendRequest Model.Services Proofs.Tie_send_common Proofs.Tie_send_flush.

Theorem C15_code_send_request_flush_P : forall cfg T P2 P2S now a1, timing cfg (Some T) P2 P2S ->
  fn_send_request_flush_P T P2 P2S now a1 = ret (obs_full (send_request cfg st_init tp_req (-1) now [(a1, Frame [126; 0])])).
Proof. exact tie_send_request_flush_P. Qed.
Print Assumptions C15_code_send_request_flush_P.
Theorem C15_code_send_request_flush_PP : forall cfg T P2 P2S now a1 a2, timing cfg (Some T) P2 P2S ->
  fn_send_request_flush_PP T P2 P2S now a1 a2 = ret (obs_full (send_request cfg st_init tp_req (-1) now [(a1, Frame [126; 0]); (a2, Frame [126; 0])])).
Proof. exact tie_send_request_flush_PP. Qed.
Print Assumptions C15_code_send_request_flush_PP.
Theorem C15_code_send_request_flush_WP : forall cfg T P2 P2S now a1 a2, timing cfg (Some T) P2 P2S ->
  fn_send_request_flush_WP T P2 P2S now a1 a2 = ret (obs_full (send_request cfg st_init tp_req (-1) now [(a1, Frame [127; 62; 120]); (a2, Frame [126; 0])])).
Proof. exact tie_send_request_flush_WP. Qed.
Print Assumptions C15_code_send_request_flush_WP.
Theorem C15_code_send_request_flush_NP : forall cfg T P2 P2S now a1 a2, timing cfg (Some T) P2 P2S ->
  fn_send_request_flush_NP T P2 P2S now a1 a2 = ret (obs_full (send_request cfg st_init tp_req (-1) now [(a1, Frame [127; 62; 34]); (a2, Frame [126; 0])])).
Proof. exact tie_send_request_flush_NP. Qed.
Print Assumptions C15_code_send_request_flush_NP.
