(* C05 - waiting obeys P2, P2* and the overall timeout exactly, for every reply schedule. Statements only. *)
From Coq Require Import ZArith List Bool String.
From UDS Require Import Lib.Bytes Lib.ErrM Spec.Timing Model.Message Model.Client Proofs.C05_lemmas.
Import ListNotations.
Open Scope Z_scope.

(* every wait of a request lasts exactly what the Spec says: first window min(P2, overall) (server P2 when
   adopted), P2* after a 'response pending', each capped by the deadline t_send + overall; any schedule *)
Theorem C05_waits : forall cfg st r now s,
  0 <= eff_p2 cfg st -> 0 <= eff_p2s cfg st -> (forall o, req_to cfg = Some o -> 0 <= o) ->
  check_waits (spec_deadline now (req_to cfg)) (first_window (eff_p2 cfg st) (req_to cfg)) (eff_p2s cfg st)
              (wl_trace (send_request cfg st r (-1) now s)).
Proof. exact send_request_waits. Qed.
Print Assumptions C05_waits.

(* the call never ends later than t_send + overall when the overall timeout is enabled *)
Theorem C05_deadline : forall cfg st r now s o,
  req_to cfg = Some o -> 0 <= o -> wl_time (send_request cfg st r (-1) now s) <= now + o.
Proof. exact send_request_deadline. Qed.
Print Assumptions C05_deadline.

(* timeout exactly when no reply arrives inside the applicable window: (=>) silence in the window gives the
   timeout, with the kind P2 / P2* / Global as the window was chosen ... *)
Theorem C05_timeout_if_silent : forall cfg p2star rsid spr deadline single star now s,
  arrives_in now (snd (wait_len single deadline now)) s = false ->
  wait_loop cfg p2star rsid spr deadline single star now s =
  let '(is_single, w) := wait_len single deadline now in
  if spr then (COk None, now + w, s, [EvW w now])
  else (CErr ETimeout None, now + w, s, [EvW w now; EvTO (kind_of is_single star)]).
Proof. exact wait_loop_silence. Qed.
Print Assumptions C05_timeout_if_silent.

(* ... (<=) and a reported timeout always comes from a wait whose window contained no arrival *)
Theorem C05_timeout_only_if_silent : forall cfg p2star rsid spr deadline s single (star : bool) now,
  let x := wait_loop cfg p2star rsid spr deadline single star now s in
  wl_res x = CErr ETimeout None ->
  exists w nw, In (EvW w nw) (wl_trace x) /\ wl_time x = nw + w /\ arrives_in nw w (wl_sched x) = false.
Proof. exact wait_loop_timeout_sound. Qed.
Print Assumptions C05_timeout_only_if_silent.

(* any number of pending replies followed by a final reply, each inside its window: the final reply's
   outcome is delivered, one callback per pending reply, one wait per reply *)
Theorem C05_delivers : forall cfg p2star s spr deadline final,
  In s services -> is_pending final = false -> 0 <= p2star ->
  forall (pend : list (Z * bytes)) af rest single (star : bool) now, 0 <= single ->
  in_windows deadline single (if star then single else p2star) now (map fst pend ++ [af]) ->
  let x := wait_loop cfg p2star (s_sid s + 64) spr deadline single star now
                     (map (fun '(a, tail) => (a, Frame (pending_frame s tail))) pend ++ (af, Frame final) :: rest) in
  wl_res x = final_result (s_sid s + 64) spr final /\
  wl_sched x = rest /\
  count_cb (wl_trace x) = (if has_cb cfg then List.length pend else O) /\
  count_w (wl_trace x) = S (List.length pend).
Proof. exact wait_loop_delivers. Qed.
Print Assumptions C05_delivers.

(* a per-call timeout t replaces both P2 and the overall limit for that call *)
Theorem C05_percall : forall cfg st r t now s, 0 <= t ->
  send_request cfg st r t now s = send_request (with_percall cfg t) (without_server_p2 st) r (-1) now s.
Proof. exact percall_replaces. Qed.
Print Assumptions C05_percall.

(* the window computation of the code is the Spec's min/max formula *)
Theorem C05_window : forall single deadline now,
  0 <= single -> snd (wait_len single deadline now) = spec_wait single deadline now.
Proof. exact wait_len_spec. Qed.

(* ---- the code is the model (regenerated each run): the real Client.send_request executed on a symbolic clock (tools/symtrans.py,
   Gen/Fn_SendRequest.v) - symbolic request_timeout, p2, p2*, start instant and arrival instants; every wait is observed with its timeout value and its instant ---- *)
From UDS Require Import Gen.Fn_SendRequest Model.Services Proofs.Tie_send_common Proofs.Tie_send_base Proofs.Tie_send_percall.

Theorem C05_code_send_request_silence : forall cfg T P2 P2S now, timing cfg (Some T) P2 P2S ->
  fn_send_request_silence T P2 P2S now = ret (obs_sr (send_request cfg st_init tp_req (-1) now [])).
Proof. exact tie_send_request_silence. Qed.
Print Assumptions C05_code_send_request_silence.
Theorem C05_code_send_request_silence_no_overall : forall cfg P2 P2S now, timing cfg None P2 P2S ->
  fn_send_request_silence_no_overall P2 P2S now = ret (obs_sr (send_request cfg st_init tp_req (-1) now [])).
Proof. exact tie_send_request_silence_no_overall. Qed.
Print Assumptions C05_code_send_request_silence_no_overall.
Theorem C05_code_send_request_P : forall cfg T P2 P2S now a1, timing cfg (Some T) P2 P2S -> now < a1 ->
  fn_send_request_P T P2 P2S now a1 = ret (obs_sr (send_request cfg st_init tp_req (-1) now [(a1, Frame [126; 0])])).
Proof. exact tie_send_request_P. Qed.
Print Assumptions C05_code_send_request_P.
Theorem C05_code_send_request_P_no_overall : forall cfg P2 P2S now a1, timing cfg None P2 P2S -> now < a1 ->
  fn_send_request_P_no_overall P2 P2S now a1 = ret (obs_sr (send_request cfg st_init tp_req (-1) now [(a1, Frame [126; 0])])).
Proof. exact tie_send_request_P_no_overall. Qed.
Print Assumptions C05_code_send_request_P_no_overall.
Theorem C05_code_send_request_W : forall cfg T P2 P2S now a1, timing cfg (Some T) P2 P2S -> now < a1 ->
  fn_send_request_W T P2 P2S now a1 = ret (obs_sr (send_request cfg st_init tp_req (-1) now [(a1, Frame [127; 62; 120])])).
Proof. exact tie_send_request_W. Qed.
Print Assumptions C05_code_send_request_W.
Theorem C05_code_send_request_W_no_overall : forall cfg P2 P2S now a1, timing cfg None P2 P2S -> now < a1 ->
  fn_send_request_W_no_overall P2 P2S now a1 = ret (obs_sr (send_request cfg st_init tp_req (-1) now [(a1, Frame [127; 62; 120])])).
Proof. exact tie_send_request_W_no_overall. Qed.
Print Assumptions C05_code_send_request_W_no_overall.
Theorem C05_code_send_request_N : forall cfg T P2 P2S now a1, timing cfg (Some T) P2 P2S -> now < a1 ->
  fn_send_request_N T P2 P2S now a1 = ret (obs_sr (send_request cfg st_init tp_req (-1) now [(a1, Frame [127; 62; 34])])).
Proof. exact tie_send_request_N. Qed.
Print Assumptions C05_code_send_request_N.
Theorem C05_code_send_request_N_no_overall : forall cfg P2 P2S now a1, timing cfg None P2 P2S -> now < a1 ->
  fn_send_request_N_no_overall P2 P2S now a1 = ret (obs_sr (send_request cfg st_init tp_req (-1) now [(a1, Frame [127; 62; 34])])).
Proof. exact tie_send_request_N_no_overall. Qed.
Print Assumptions C05_code_send_request_N_no_overall.
Theorem C05_code_send_request_I : forall cfg T P2 P2S now a1, timing cfg (Some T) P2 P2S -> now < a1 ->
  fn_send_request_I T P2 P2S now a1 = ret (obs_sr (send_request cfg st_init tp_req (-1) now [(a1, Frame [127])])).
Proof. exact tie_send_request_I. Qed.
Print Assumptions C05_code_send_request_I.
Theorem C05_code_send_request_I_no_overall : forall cfg P2 P2S now a1, timing cfg None P2 P2S -> now < a1 ->
  fn_send_request_I_no_overall P2 P2S now a1 = ret (obs_sr (send_request cfg st_init tp_req (-1) now [(a1, Frame [127])])).
Proof. exact tie_send_request_I_no_overall. Qed.
Print Assumptions C05_code_send_request_I_no_overall.
Theorem C05_code_send_request_U : forall cfg T P2 P2S now a1, timing cfg (Some T) P2 P2S -> now < a1 ->
  fn_send_request_U T P2 P2S now a1 = ret (obs_sr (send_request cfg st_init tp_req (-1) now [(a1, Frame [81; 1])])).
Proof. exact tie_send_request_U. Qed.
Print Assumptions C05_code_send_request_U.
Theorem C05_code_send_request_U_no_overall : forall cfg P2 P2S now a1, timing cfg None P2 P2S -> now < a1 ->
  fn_send_request_U_no_overall P2 P2S now a1 = ret (obs_sr (send_request cfg st_init tp_req (-1) now [(a1, Frame [81; 1])])).
Proof. exact tie_send_request_U_no_overall. Qed.
Print Assumptions C05_code_send_request_U_no_overall.
Theorem C05_code_send_request_WP : forall cfg T P2 P2S now a1 a2, timing cfg (Some T) P2 P2S -> now < a1 ->
  fn_send_request_WP T P2 P2S now a1 a2 = ret (obs_sr (send_request cfg st_init tp_req (-1) now [(a1, Frame [127; 62; 120]); (a2, Frame [126; 0])])).
Proof. exact tie_send_request_WP. Qed.
Print Assumptions C05_code_send_request_WP.
Theorem C05_code_send_request_WP_no_overall : forall cfg P2 P2S now a1 a2, timing cfg None P2 P2S -> now < a1 ->
  fn_send_request_WP_no_overall P2 P2S now a1 a2 = ret (obs_sr (send_request cfg st_init tp_req (-1) now [(a1, Frame [127; 62; 120]); (a2, Frame [126; 0])])).
Proof. exact tie_send_request_WP_no_overall. Qed.
Print Assumptions C05_code_send_request_WP_no_overall.
Theorem C05_code_send_request_WN : forall cfg T P2 P2S now a1 a2, timing cfg (Some T) P2 P2S -> now < a1 ->
  fn_send_request_WN T P2 P2S now a1 a2 = ret (obs_sr (send_request cfg st_init tp_req (-1) now [(a1, Frame [127; 62; 120]); (a2, Frame [127; 62; 34])])).
Proof. exact tie_send_request_WN. Qed.
Print Assumptions C05_code_send_request_WN.
Theorem C05_code_send_request_WN_no_overall : forall cfg P2 P2S now a1 a2, timing cfg None P2 P2S -> now < a1 ->
  fn_send_request_WN_no_overall P2 P2S now a1 a2 = ret (obs_sr (send_request cfg st_init tp_req (-1) now [(a1, Frame [127; 62; 120]); (a2, Frame [127; 62; 34])])).
Proof. exact tie_send_request_WN_no_overall. Qed.
Print Assumptions C05_code_send_request_WN_no_overall.
Theorem C05_code_send_request_WW : forall cfg T P2 P2S now a1 a2, timing cfg (Some T) P2 P2S -> now < a1 ->
  fn_send_request_WW T P2 P2S now a1 a2 = ret (obs_sr (send_request cfg st_init tp_req (-1) now [(a1, Frame [127; 62; 120]); (a2, Frame [127; 62; 120])])).
Proof. exact tie_send_request_WW. Qed.
Print Assumptions C05_code_send_request_WW.
Theorem C05_code_send_request_WW_no_overall : forall cfg P2 P2S now a1 a2, timing cfg None P2 P2S -> now < a1 ->
  fn_send_request_WW_no_overall P2 P2S now a1 a2 = ret (obs_sr (send_request cfg st_init tp_req (-1) now [(a1, Frame [127; 62; 120]); (a2, Frame [127; 62; 120])])).
Proof. exact tie_send_request_WW_no_overall. Qed.
Print Assumptions C05_code_send_request_WW_no_overall.
Theorem C05_code_send_request_percall_silence : forall cfg T Tp P2 P2S now, timing cfg (Some T) P2 P2S -> 0 <= Tp ->
  fn_send_request_percall_silence T Tp P2 P2S now = ret (obs_sr (send_request cfg st_init tp_req Tp now [])).
Proof. exact tie_send_request_percall_silence. Qed.
Print Assumptions C05_code_send_request_percall_silence.
Theorem C05_code_send_request_percall_P : forall cfg T Tp P2 P2S now a1, timing cfg (Some T) P2 P2S -> 0 <= Tp -> now < a1 ->
  fn_send_request_percall_P T Tp P2 P2S now a1 = ret (obs_sr (send_request cfg st_init tp_req Tp now [(a1, Frame [126; 0])])).
Proof. exact tie_send_request_percall_P. Qed.
Print Assumptions C05_code_send_request_percall_P.
Theorem C05_code_send_request_percall_WP : forall cfg T Tp P2 P2S now a1 a2, timing cfg (Some T) P2 P2S -> 0 <= Tp -> now < a1 ->
  fn_send_request_percall_WP T Tp P2 P2S now a1 a2 = ret (obs_sr (send_request cfg st_init tp_req Tp now [(a1, Frame [127; 62; 120]); (a2, Frame [126; 0])])).
Proof. exact tie_send_request_percall_WP. Qed.
Print Assumptions C05_code_send_request_percall_WP.
Theorem C05_code_send_request_percall_W : forall cfg T Tp P2 P2S now a1, timing cfg (Some T) P2 P2S -> 0 <= Tp -> now < a1 ->
  fn_send_request_percall_W T Tp P2 P2S now a1 = ret (obs_sr (send_request cfg st_init tp_req Tp now [(a1, Frame [127; 62; 120])])).
Proof. exact tie_send_request_percall_W. Qed.
Print Assumptions C05_code_send_request_percall_W.
Theorem C05_code_send_request_percall_no_overall_silence : forall cfg Tp P2 P2S now, timing cfg None P2 P2S -> 0 <= Tp ->
  fn_send_request_percall_no_overall_silence Tp P2 P2S now = ret (obs_sr (send_request cfg st_init tp_req Tp now [])).
Proof. exact tie_send_request_percall_no_overall_silence. Qed.
Print Assumptions C05_code_send_request_percall_no_overall_silence.
Theorem C05_code_send_request_percall_no_overall_P : forall cfg Tp P2 P2S now a1, timing cfg None P2 P2S -> 0 <= Tp -> now < a1 ->
  fn_send_request_percall_no_overall_P Tp P2 P2S now a1 = ret (obs_sr (send_request cfg st_init tp_req Tp now [(a1, Frame [126; 0])])).
Proof. exact tie_send_request_percall_no_overall_P. Qed.
Print Assumptions C05_code_send_request_percall_no_overall_P.
Theorem C05_code_send_request_percall_no_overall_W : forall cfg Tp P2 P2S now a1, timing cfg None P2 P2S -> 0 <= Tp -> now < a1 ->
  fn_send_request_percall_no_overall_W Tp P2 P2S now a1 = ret (obs_sr (send_request cfg st_init tp_req Tp now [(a1, Frame [127; 62; 120])])).
Proof. exact tie_send_request_percall_no_overall_W. Qed.
Print Assumptions C05_code_send_request_percall_no_overall_W.
