(* C05 - waiting obeys P2, P2* and the overall timeout exactly, for every reply schedule. Statements only. *)
From Coq Require Import ZArith List Bool String.
From UDS Require Import Lib.Bytes Lib.ErrM Spec.Timing Model.Message Model.Client Proofs.C05_lemmas.
Import ListNotations.
Open Scope Z_scope.

(* every wait of a request lasts exactly what the Spec says: first window min(P2, overall) (server P2 when
   adopted), P2* after a 'response pending', each capped by the deadline t_send + overall; any schedule *)
Theorem C05_waits : forall cfg st r now s,
  0 <= eff_p2 cfg st -> 0 <= eff_p2s cfg st -> (forall o, req_to cfg = Some o -> 0 <= o) ->
  check_waits (spec_deadline now (req_to cfg)) (first_window (eff_p2 cfg st) (req_to cfg)) (eff_p2s cfg st)
              (wl_trace (send_request cfg st r (-1) now s)).
Proof. exact send_request_waits. Qed.
Print Assumptions C05_waits.

(* the call never ends later than t_send + overall when the overall timeout is enabled *)
Theorem C05_deadline : forall cfg st r now s o,
  req_to cfg = Some o -> 0 <= o -> wl_time (send_request cfg st r (-1) now s) <= now + o.
Proof. exact send_request_deadline. Qed.
Print Assumptions C05_deadline.

(* timeout exactly when no reply arrives inside the applicable window: (=>) silence in the window gives the
   timeout, with the kind P2 / P2* / Global as the window was chosen ... *)
Theorem C05_timeout_if_silent : forall cfg p2star rsid spr deadline single star now s,
  arrives_in now (snd (wait_len single deadline now)) s = false ->
  wait_loop cfg p2star rsid spr deadline single star now s =
  let '(is_single, w) := wait_len single deadline now in
  if spr then (COk None, now + w, s, [EvW w now])
  else (CErr ETimeout None, now + w, s, [EvW w now; EvTO (kind_of is_single star)]).
Proof. exact wait_loop_silence. Qed.
Print Assumptions C05_timeout_if_silent.

(* ... (<=) and a reported timeout always comes from a wait whose window contained no arrival *)
Theorem C05_timeout_only_if_silent : forall cfg p2star rsid spr deadline s single (star : bool) now,
  let x := wait_loop cfg p2star rsid spr deadline single star now s in
  wl_res x = CErr ETimeout None ->
  exists w nw, In (EvW w nw) (wl_trace x) /\ wl_time x = nw + w /\ arrives_in nw w (wl_sched x) = false.
Proof. exact wait_loop_timeout_sound. Qed.
Print Assumptions C05_timeout_only_if_silent.

(* any number of pending replies followed by a final reply, each inside its window: the final reply's
   outcome is delivered, one callback per pending reply, one wait per reply *)
Theorem C05_delivers : forall cfg p2star s spr deadline final,
  In s services -> is_pending final = false -> 0 <= p2star ->
  forall (pend : list (Z * bytes)) af rest single (star : bool) now, 0 <= single ->
  in_windows deadline single (if star then single else p2star) now (map fst pend ++ [af]) ->
  let x := wait_loop cfg p2star (s_sid s + 64) spr deadline single star now
                     (map (fun '(a, tail) => (a, Frame (pending_frame s tail))) pend ++ (af, Frame final) :: rest) in
  wl_res x = final_result (s_sid s + 64) spr final /\
  wl_sched x = rest /\
  count_cb (wl_trace x) = (if has_cb cfg then List.length pend else O) /\
  count_w (wl_trace x) = S (List.length pend).
Proof. exact wait_loop_delivers. Qed.
Print Assumptions C05_delivers.

(* a per-call timeout t replaces both P2 and the overall limit for that call *)
Theorem C05_percall : forall cfg st r t now s, 0 <= t ->
  send_request cfg st r t now s = send_request (with_percall cfg t) (without_server_p2 st) r (-1) now s.
Proof. exact percall_replaces. Qed.
Print Assumptions C05_percall.

(* the window computation of the code is the Spec's min/max formula *)
Theorem C05_window : forall single deadline now,
  0 <= single -> snd (wait_len single deadline now) = spec_wait single deadline now.
Proof. exact wait_len_spec. Qed.
