(* C08 - exception_on_* switches change how an outcome is delivered, never the outcome. Statements only. *)
From Coq Require Import ZArith List Bool String.
From UDS Require Import Lib.Bytes Lib.ErrM Model.Message Model.Client Model.Services Model.History
  Proofs.Client_lemmas.
Import ListNotations.
Open Scope Z_scope.

(* the body of every modelled client method is independent of the three switches (all 8 settings) *)
Theorem C08_inner_independent : forall cfg a b c st call now s,
  run_inner (with_switches cfg a b c) st call now s = run_inner cfg st call now s.
Proof. exact run_inner_switches. Qed.
Print Assumptions C08_inner_independent.

(* delivery: the class observed by the caller is the inner class whatever the switches; the payload is the
   same under any two settings; a response handed back never looks successful *)
Theorem C08_class : forall (A : Type) cfg (i : cres A), sane_inner i ->
  outcome_class (deliver cfg i) = inner_class i /\
  (forall cfg', outcome_payload (deliver cfg i) = outcome_payload (deliver cfg' i)) /\
  match deliver cfg i with ORetResp r => looks_successful r = false | _ => True end.
Proof. exact @deliver_class. Qed.
Print Assumptions C08_class.

(* switch on: the exception carrying the response; off: the same response returned with the flag set *)
Theorem C08_switch : forall (A : Type) cfg (i : cres A),
  match i with
  | CErr ENegative (Some r) =>
    deliver cfg i = if ex_neg cfg then ORaise ENegative (Some (set_flags r (Some false) None None))
                    else ORetResp (set_flags r (Some false) None None)
  | CErr EInvalid (Some r) =>
    deliver cfg i = if ex_inv cfg then ORaise EInvalid (Some (set_flags r None (Some false) None))
                    else ORetResp (set_flags r None (Some false) None)
  | CErr EUnexpected (Some r) =>
    deliver cfg i = if ex_unx cfg then ORaise EUnexpected (Some (set_flags r None None (Some true)))
                    else ORetResp (set_flags r None None (Some true))
  | COk a => deliver cfg i = ORet a
  | CErr e r => deliver cfg i = ORaise e r
  end.
Proof. exact @deliver_switch. Qed.
Print Assumptions C08_switch.

(* ---- the code is the model (regenerated each run): Client.standard_error_management executed around an inner function that ends in each
   possible way, under all eight switch settings (tools/symtrans.py, Gen/Fn_Decorator.v), is `deliver` ---- *)
From UDS Require Import Gen.Fn_Decorator Proofs.Tie_decorator.

Theorem C08_code_decorator : forall cfg kind a b c rp rn, with_switches cfg a b c ->
  p_positive rp = true -> p_valid rp = true -> p_unexpected rp = false ->
  p_positive rn = false -> p_valid rn = true -> p_unexpected rn = false ->
  fn_decorated kind a b c = seen (deliver cfg (inner_of kind rp rn)).
Proof. exact tie_decorated. Qed.
Print Assumptions C08_code_decorator.
Theorem C08_code_decorator_after_any_call : forall cfg first kind a b c rp rn, with_switches cfg a b c ->
  p_positive rp = true -> p_valid rp = true -> p_unexpected rp = false ->
  p_positive rn = false -> p_valid rn = true -> p_unexpected rn = false ->
  fn_decorated_after first kind a b c = seen (deliver cfg (inner_of kind rp rn)).
Proof. exact tie_decorated_after. Qed.
Print Assumptions C08_code_decorator_after_any_call.
