(* C06 - every negative response code ends the request as negative; only 0x78 prolongs. Statements only. *)
From Coq Require Import ZArith List Bool String.
From UDS Require Import Lib.Bytes Lib.ErrM Gen.Nrc Spec.Timing Model.Message Model.Client
  Proofs.C05_lemmas Proofs.Client_lemmas Proofs.C06_lemmas Proofs.C20_lemmas.
Import ListNotations.
Open Scope Z_scope.

(* every service of the table, every code 0x00..0xFF except 0x78, any tail bytes, any number k of preceding
   0x78 frames, each frame inside its window: the request ends negative, carrying exactly that code and its
   name, positive = false; exactly k callbacks (when configured), each immediately before the next wait *)
Theorem C06_negative : forall cfg p2star s spr deadline code tail,
  In s services -> code <> 120 -> 0 <= p2star ->
  forall (pend : list (Z * bytes)) af rest single (star : bool) now, 0 <= single ->
  in_windows deadline single (if star then single else p2star) now (map fst pend ++ [af]) ->
  let x := wait_loop cfg p2star (s_sid s + 64) spr deadline single star now
             (map (fun '(a, tl) => (a, Frame (pending_frame s tl))) pend ++ (af, Frame (negative_frame s code tail)) :: rest) in
  wl_res x = CErr ENegative (Some (parse_response (negative_frame s code tail))) /\
  p_code (parse_response (negative_frame s code tail)) = Some code /\
  p_name (parse_response (negative_frame s code tail)) = nrc_name code /\
  p_positive (parse_response (negative_frame s code tail)) = false /\
  count_cb (wl_trace x) = (if has_cb cfg then List.length pend else O) /\
  cb_then_w (wl_trace x).
Proof. exact loop_negative. Qed.
Print Assumptions C06_negative.

(* delivery by the decorator: raised or returned, same response, never positive *)
Theorem C06_delivered : forall (A : Type) cfg (r : resp), p_positive r = false ->
  @deliver A cfg (CErr ENegative (Some r)) = if ex_neg cfg then ORaise ENegative (Some r) else ORetResp r.
Proof. exact @deliver_negative. Qed.
Print Assumptions C06_delivered.

(* 0x78 is never surfaced: for every schedule, a negative outcome never carries 0x78, and a returned
   response is positive and valid *)
Theorem C06_78_hidden : forall cfg p2star rsid spr deadline s single (star : bool) now,
  match wl_res (wait_loop cfg p2star rsid spr deadline single star now s) with
  | CErr ENegative (Some r) => p_code r <> Some 120 /\ p_positive r = false /\ p_valid r = true
  | CErr ENegative None => False
  | COk (Some r) => p_positive r = true /\ p_valid r = true /\ spr = false
  | _ => True
  end.
Proof. exact wait_loop_no_78. Qed.
Print Assumptions C06_78_hidden.

(* the standard name of every code *)
Theorem C06_name : forall code, 0 <= code < 256 -> nrc_name_spec code (nrc_name code).
Proof. exact nrc_names_faithful. Qed.
Print Assumptions C06_name.

(* ---- the code is the model (regenerated each run): the real Client.send_request executed on a symbolic clock (tools/symtrans.py,
   Gen/Fn_SendRequest.v) - pending frames with a callback configured; the negative / pending shapes without callback are among the C05 statements, whose file this one builds on ---- *)
From UDS Require Import Gen.Fn_SendRequest Model.Services Proofs.Tie_send_common Proofs.Tie_send_cb.

Theorem C06_code_send_request_cb_W : forall cfg T P2 P2S now a1, timing_cb cfg (Some T) P2 P2S true -> now < a1 ->
  fn_send_request_cb_W T P2 P2S now a1 = ret (obs_sr (send_request cfg st_init tp_req (-1) now [(a1, Frame [127; 62; 120])])).
Proof. exact tie_send_request_cb_W. Qed.
Print Assumptions C06_code_send_request_cb_W.
Theorem C06_code_send_request_cb_WP : forall cfg T P2 P2S now a1 a2, timing_cb cfg (Some T) P2 P2S true -> now < a1 ->
  fn_send_request_cb_WP T P2 P2S now a1 a2 = ret (obs_sr (send_request cfg st_init tp_req (-1) now [(a1, Frame [127; 62; 120]); (a2, Frame [126; 0])])).
Proof. exact tie_send_request_cb_WP. Qed.
Print Assumptions C06_code_send_request_cb_WP.
Theorem C06_code_send_request_cb_WW : forall cfg T P2 P2S now a1 a2, timing_cb cfg (Some T) P2 P2S true -> now < a1 ->
  fn_send_request_cb_WW T P2 P2S now a1 a2 = ret (obs_sr (send_request cfg st_init tp_req (-1) now [(a1, Frame [127; 62; 120]); (a2, Frame [127; 62; 120])])).
Proof. exact tie_send_request_cb_WW. Qed.
Print Assumptions C06_code_send_request_cb_WW.
