(* C13 - security unlock sends a seed request, then exactly the computed key, or nothing. Statements only. *)
From Coq Require Import ZArith List Bool String.
From UDS Require Import Lib.Bytes Lib.ErrM Model.Message Model.Client Model.Services Model.History
  Proofs.Client_lemmas Proofs.History_lemmas.
Import ListNotations.
Open Scope Z_scope.

(* structure of the composite, for every level, seed parameters, configuration and reply schedule:
   - seed exchange not successful (negative, invalid, mismatching, timeout, suppressed): nothing more happens;
   - all-zero seed: nothing more happens, the seed response is returned;
   - an algorithm that fails (raises its own exception): exactly one algorithm call, that error, nothing more is sent;
   - otherwise: exactly one algorithm call on exactly the received seed, then send_key with its result *)
Theorem C13_structure : forall cfg st level params now s,
  0 < algo cfg ->
  let '(res1, st1, t1, s1, tr1) := request_seed cfg st level params now s in
  let '(res, _, _, _, tr) := unlock_security_access cfg st level params now s in
  match res1 with
  | COk (Some (r, sd)) =>
    let seed := seed_of sd in
    if negb (Nat.eqb (List.length seed) 0) && all_zero seed then tr = tr1 /\ res = res1
    else if algo_fails cfg then tr = tr1 ++ [snd (algo_run cfg seed level)] /\ res = CErr ERuntime None
    else
      let '(res2, _, _, _, tr2) := send_key cfg st1 level (fst (algo_run cfg seed level)) t1 s1 in
      tr = tr1 ++ snd (algo_run cfg seed level) :: tr2 /\ res = res2
  | _ => tr = tr1 /\ res = res1
  end.
Proof. exact unlock_structure. Qed.
Print Assumptions C13_structure.

(* each of the two exchanges sends at most one frame, never runs the algorithm; what it sends is its request *)
Theorem C13_one_frame_each : forall cfg st mk interp post now s,
  let '(_, _, _, _, tr) := single_request cfg st mk interp post now s in
  (count_s tr <= 1)%nat /\ count_algo tr = O /\ (count_s tr <= count_f tr)%nat /\ cb_then_w tr /\
  match mk with
  | inl _ => tr = []
  | inr rq => match wire_payload st rq with inr p => sent tr = [p] | inl _ => sent tr = [] end
  end.
Proof. exact single_request_trace. Qed.
Print Assumptions C13_one_frame_each.

(* the frames: 27, odd subfunction 2k-1, seed parameters / 27, even subfunction 2k, key unmodified *)
Theorem C13_frames : forall st send_key level data, 1 <= level <= 126 -> spr_on st = false ->
  exists rq lv, sa_make send_key level data = inr rq /\ normalize_level send_key level = inr lv /\
    wire_payload st rq = inr (apply_override (ov st) (sa_sid :: lv :: data)).
Proof. exact sa_make_payload. Qed.
Print Assumptions C13_frames.

Theorem C13_parity : forall send_key level, 1 <= level <= 126 ->
  exists lv, normalize_level send_key level = inr lv /\ 1 <= lv <= 126 /\
    (if send_key then lv mod 2 = 0 else lv mod 2 = 1) /\ (lv + 1) / 2 = (level + 1) / 2.
Proof. exact normalize_level_spec. Qed.
Print Assumptions C13_parity.

Theorem C13_level_domain : forall send_key level data,
  level < 1 \/ 126 < level -> sa_make send_key level data = inl EValue.
Proof. exact sa_make_rejects. Qed.

(* the algorithm sees the received seed and the requested level *)
Theorem C13_algo_args : forall cfg seed level,
  exists lvl prm, snd (algo_run cfg seed level) = EvALGO seed lvl prm /\ (lvl = level \/ lvl = -1).
Proof. exact algo_run_event. Qed.
Print Assumptions C13_algo_args.

Theorem C13_no_algo_configured : forall cfg st level params now s,
  algo cfg <= 0 -> unlock_security_access cfg st level params now s = (CErr ENotImpl None, st, now, s, []).
Proof. exact unlock_no_algo. Qed.

(* ---- the code is the rule (regenerated each run): the real unlock_security_access (with request_seed and send_key underneath), executed with
   send_request replaced by two scripted positive replies - any level, any seed-request data, seed replies of 1..3 data bytes and key replies
   of any length, every byte symbolic - and the algorithm "key = reversed seed" (tools/symtrans.py, Gen/Fn_Unlock.v): [error code or 0;
   number of requests sent] ++ the requests are those of `unlock_spec`, which sends the seed request, nothing more when the seed exchange
   fails or the seed is all zero, and otherwise exactly one key request carrying the computed key ---- *)
From UDS Require Import Gen.Fn_Unlock Proofs.Tie_unlock_common Proofs.Tie_unlock.

Theorem C13_code_unlock : forall level params d1 d2 r1 r2,
  d1 <> [] -> (List.length d1 < 4)%nat -> d2 <> [] -> p_data r1 = d1 -> p_data r2 = d2 ->
  fn_unlock level params d1 d2 = ret (unlock_spec level params r1 r2).
Proof. exact tie_unlock. Qed.
Print Assumptions C13_code_unlock.
(* ... the same with the three exception_on_* switches off (the flagged response handed back instead of raised is observed as the code
   the exception would have given): nothing more is sent after a failed seed exchange, whatever the switches *)
From UDS Require Import Proofs.Tie_unlock_lenient.
Theorem C13_code_unlock_switches_off : forall level params d1 d2 r1 r2,
  d1 <> [] -> (List.length d1 < 4)%nat -> d2 <> [] -> p_data r1 = d1 -> p_data r2 = d2 ->
  fn_unlock_lenient level params d1 d2 = ret (unlock_spec level params r1 r2).
Proof. exact tie_unlock_lenient. Qed.
Print Assumptions C13_code_unlock_switches_off.
