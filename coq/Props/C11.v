(* C11 - zero padding: trailing zeros are ignored when tolerated, rejected when not.  Statements only. *)
From Coq Require Import ZArith List Bool String.
From UDS Require Import Lib.Bytes Lib.ErrM Lib.PyOps Model.Message Model.Client Model.Services Model.Svc_Did Model.Svc_Dtc
  Proofs.C02_lemmas.
Import ListNotations.
Open Scope Z_scope.

(* DTC record lists (all subfunctions decoded by the 4-byte record loop): tolerance on, ignore on: any number n of
   trailing zero bytes after any complete valid record list changes nothing *)
Theorem C11_dtc_tolerant : forall pc sub l pre acc n fuel,
  Forall wf_rec4 l -> Forall (fun x => x <> (0, 0)) l -> pc_tol pc = true -> pc_ign pc = true ->
  (List.length l + n < fuel)%nat ->
  loop_records fuel pc sub false (pre ++ recs4 l ++ repeat 0 n) (List.length pre) acc = inr (acc ++ map dtc4 l).
Proof. exact loop_records_tolerant. Qed.
Print Assumptions C11_dtc_tolerant.

(* tolerance off: 1..3 trailing zero bytes (not a whole record) are refused *)
Theorem C11_dtc_strict : forall pc sub pre acc n fuel,
  (1 <= n <= 3)%nat -> (0 < fuel)%nat -> pc_tol pc = false -> sub <> 9 ->
  loop_records fuel pc sub false (pre ++ repeat 0 n) (List.length pre) acc = inl EInvalid.
Proof. exact loop_records_strict_partial. Qed.
Print Assumptions C11_dtc_strict.

(* WWH-OBD: same two statements (tolerant: C02_wwh_obd_records with n > 0) *)
Theorem C11_wwh_tolerant : forall pc l acc fuel n,
  Forall wf_rec5 l -> (pc_ign pc = true -> Forall (fun x => x <> (0, 0, 0)) l) ->
  (List.length l + n < fuel)%nat -> (n = 0%nat \/ (pc_tol pc = true /\ pc_ign pc = true)) ->
  loop_wwh fuel pc (flat_map rec5 l ++ repeat 0 n) acc = inr (acc ++ map dtc5 l).
Proof. exact loop_wwh_decode. Qed.
Theorem C11_wwh_strict : forall pc fuel d,
  (0 < fuel)%nat -> (1 <= List.length d <= 4)%nat -> pc_tol pc = false -> loop_wwh fuel pc d [] = inl EInvalid.
Proof. exact loop_wwh_strict_partial. Qed.
Print Assumptions C11_wwh_strict.

(* ReadDataByIdentifier: tolerance on and DID 0x0000 not configured: any number of trailing zero bytes ends the parse
   with the values read so far; tolerance off: a lone trailing byte is refused *)
Theorem C11_dids_tolerant : forall pc req pre vals n fuel,
  (0 < fuel)%nat -> pc_tol pc = true -> lookup 0 (pc_dids pc) = None ->
  rdbi_loop fuel pc req (pre ++ repeat 0 n) (List.length pre) vals = inr vals.
Proof. exact rdbi_loop_padding. Qed.
Print Assumptions C11_dids_tolerant.
Theorem C11_dids_strict : forall pc req pre vals b fuel,
  (0 < fuel)%nat -> pc_tol pc = false ->
  rdbi_loop fuel pc req (pre ++ [b]) (List.length pre) vals = inl EInvalid.
Proof. exact rdbi_loop_strict_one. Qed.
Print Assumptions C11_dids_strict.

(* C11_partial: with ignore_all_zero_dtc off the whole all-zero records among the padding become DTC 0 records (the
   exception clause of the property); that case, the 6-byte severity records, the fault-counter / snapshot /
   extended-data decoders, io_control, read_memory_by_address and request_file_transfer are covered by the
   padding correspondence (every pad length 0..2*rs+1, four settings), not yet by a Coq theorem. *)
