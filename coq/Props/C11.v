(* placeholder until the padding proofs are written *)
From Coq Require Import ZArith.
Theorem C11_placeholder : True. Proof. exact I. Qed.
