(* C11 - zero padding: trailing zeros are ignored when tolerated, rejected when not.  Statements only. *)
From Coq Require Import ZArith List Bool String.
From UDS Require Import Lib.Bytes Lib.ErrM Lib.PyOps Model.Message Model.Client Model.Services Model.Svc_Did Model.Svc_Dtc
  Model.Svc_Memory Proofs.C02_lemmas Proofs.C02b_lemmas Proofs.C02c_lemmas Proofs.C11_lemmas.
Import ListNotations.
Open Scope Z_scope.

(* DTC record lists (all subfunctions decoded by the 4-byte record loop): tolerance on, ignore on: any number n of
   trailing zero bytes after any complete valid record list changes nothing *)
Theorem C11_dtc_tolerant : forall pc sub l pre acc n fuel,
  Forall wf_rec4 l -> Forall (fun x => x <> (0, 0)) l -> pc_tol pc = true -> pc_ign pc = true ->
  (List.length l + n < fuel)%nat ->
  loop_records fuel pc sub false (pre ++ recs4 l ++ repeat 0 n) (List.length pre) acc = inr (acc ++ map dtc4 l).
Proof. exact loop_records_tolerant. Qed.
Print Assumptions C11_dtc_tolerant.

(* tolerance off: 1..3 trailing zero bytes (not a whole record) are refused *)
Theorem C11_dtc_strict : forall pc sub pre acc n fuel,
  (1 <= n <= 3)%nat -> (0 < fuel)%nat -> pc_tol pc = false -> sub <> 9 ->
  loop_records fuel pc sub false (pre ++ repeat 0 n) (List.length pre) acc = inl EInvalid.
Proof. exact loop_records_strict_partial. Qed.
Print Assumptions C11_dtc_strict.

(* WWH-OBD: same two statements (tolerant: C02_wwh_obd_records with n > 0) *)
Theorem C11_wwh_tolerant : forall pc l acc fuel n,
  Forall wf_rec5 l -> (pc_ign pc = true -> Forall (fun x => x <> (0, 0, 0)) l) ->
  (List.length l + n < fuel)%nat -> (n = 0%nat \/ (pc_tol pc = true /\ pc_ign pc = true)) ->
  loop_wwh fuel pc (flat_map rec5 l ++ repeat 0 n) acc = inr (acc ++ map dtc5 l).
Proof. exact loop_wwh_decode. Qed.
Theorem C11_wwh_strict : forall pc fuel d,
  (0 < fuel)%nat -> (1 <= List.length d <= 4)%nat -> pc_tol pc = false -> loop_wwh fuel pc d [] = inl EInvalid.
Proof. exact loop_wwh_strict_partial. Qed.
Print Assumptions C11_wwh_strict.

(* ReadDataByIdentifier: tolerance on and DID 0x0000 not configured: any number of trailing zero bytes ends the parse
   with the values read so far; tolerance off: a lone trailing byte is refused *)
Theorem C11_dids_tolerant : forall pc req pre vals n fuel,
  (0 < fuel)%nat -> pc_tol pc = true -> lookup 0 (pc_dids pc) = None ->
  rdbi_loop fuel pc req (pre ++ repeat 0 n) (List.length pre) vals = inr vals.
Proof. exact rdbi_loop_padding. Qed.
Print Assumptions C11_dids_tolerant.
Theorem C11_dids_strict : forall pc req pre vals b fuel,
  (0 < fuel)%nat -> pc_tol pc = false ->
  rdbi_loop fuel pc req (pre ++ [b]) (List.length pre) vals = inl EInvalid.
Proof. exact rdbi_loop_strict_one. Qed.
Print Assumptions C11_dids_strict.

(* the nested decoders: any number n of trailing zero bytes after any complete valid response changes nothing when padding is
   tolerated (snapshots by DTC number and by record number, extended data by DTC number) ... *)
Theorem C11_snapshots_tolerant : forall cfg a dtc st l n,
  0 <= dtc < 16777216 -> 0 <= st < 256 -> 1 <= snap_did cfg <= 8 -> Forall (wf_snap (pc_of cfg)) l -> tol_pad cfg = true ->
  rdtci_decode cfg 4 a ([4] ++ be_enc 3 dtc ++ [st] ++ flat_map (snap_rec (Z.to_nat (snap_did cfg))) l ++ repeat 0 n)
  = rdtci_decode cfg 4 a ([4] ++ be_enc 3 dtc ++ [st] ++ flat_map (snap_rec (Z.to_nat (snap_did cfg))) l).
Proof.
  intros cfg a dtc st l n Hd Hs Hz Hw Ht. rewrite (snapshots_by_dtc_decode_pad cfg a dtc st l n Hd Hs Hz Hw (or_intror Ht)).
  symmetry. exact (snapshots_by_dtc_decode cfg a dtc st l Hd Hs Hz Hw).
Qed.
Print Assumptions C11_snapshots_tolerant.
Theorem C11_snapshots_by_record_tolerant : forall pc l pre acc fuel n,
  Forall (wf_srec pc) l -> (List.length l < fuel)%nat -> pc_tol pc = true ->
  loop_snap_by_rec fuel pc (pre ++ flat_map (srec (Z.to_nat (pc_snap pc))) l ++ repeat 0 n) (List.length pre) acc
  = inr (acc ++ map dtc_of_srec l).
Proof. intros pc l pre acc fuel n Hw Hf Ht. exact (loop_snap_by_rec_decode pc l pre acc fuel n Hw Hf (or_intror Ht)). Qed.
Print Assumptions C11_snapshots_by_record_tolerant.
Theorem C11_extended_data_tolerant : forall cfg a dtc st size l n,
  0 <= dtc < 16777216 -> 0 <= st < 256 -> ext_size_of cfg a = inr size -> Forall (wf_ext size) l -> tol_pad cfg = true ->
  rdtci_decode cfg 6 a ([6] ++ be_enc 3 dtc ++ [st] ++ flat_map ext_rec l ++ repeat 0 n)
  = rdtci_decode cfg 6 a ([6] ++ be_enc 3 dtc ++ [st] ++ flat_map ext_rec l).
Proof.
  intros cfg a dtc st size l n Hd Hs Hz Hw Ht. rewrite (extdata_by_dtc_decode_pad cfg a dtc st size l n Hd Hs Hz Hw (or_intror Ht)).
  symmetry. exact (extdata_by_dtc_decode cfg a dtc st size l Hd Hs Hz Hw).
Qed.
Print Assumptions C11_extended_data_tolerant.
(* ... extended data by record number: zeros are padding when all-zero records are ignored, or when fewer than one whole record
   (4 + size bytes) of them follows; otherwise they are genuine records (the exception clause of the property) *)
Theorem C11_extended_data_by_record_tolerant : forall pc size recnum l pre fuel n,
  Forall (wf_erec size) l -> NoDup (map eid l) -> (List.length l < fuel)%nat ->
  pc_tol pc = true -> (pc_ign pc = true \/ (n < size + 4)%nat) ->
  loop_ext_by_rec fuel pc size recnum (pre ++ flat_map erec l ++ repeat 0 n) (List.length pre) [] = inr (map (dtc_of_erec recnum) l).
Proof.
  intros pc size recnum l pre fuel n Hw Hn Hf Ht Hi.
  exact (loop_ext_by_rec_decode pc size recnum l pre [] fuel n Hw Hn (fun y Hy => match Hy with end) Hf (or_intror (conj Ht Hi))).
Qed.
Print Assumptions C11_extended_data_by_record_tolerant.
(* ... the 6-byte severity records and the fault counters *)
Theorem C11_severity_tolerant : forall pc sub l pre acc n fuel,
  Forall wf_rec6 l -> Forall (fun x => x <> (0, 0, 0, 0)) l -> pc_tol pc = true -> pc_ign pc = true -> (List.length l + n < fuel)%nat ->
  loop_records fuel pc sub true (pre ++ flat_map rec6 l ++ repeat 0 n) (List.length pre) acc = inr (acc ++ map dtc6 l).
Proof. intros pc sub l pre acc n fuel Hw Hz Ht Hi Hf. exact (loop_records6_decode pc sub l pre acc n fuel Hw (fun _ => Hz) (or_intror (conj Ht Hi)) Hf). Qed.
Print Assumptions C11_severity_tolerant.
Theorem C11_fault_counters_tolerant : forall pc l pre acc n fuel,
  Forall wf_rec4 l -> Forall (fun x => x <> (0, 0)) l -> pc_tol pc = true -> pc_ign pc = true -> (List.length l + n < fuel)%nat ->
  loop_pairs fuel pc true (pre ++ recs4 l ++ repeat 0 n) (List.length pre) acc = inr (acc ++ map dtcf l).
Proof. intros pc l pre acc n fuel Hw Hz Ht Hi Hf. exact (loop_fault_counters_decode pc l pre acc n fuel Hw (fun _ => Hz) (or_intror (conj Ht Hi)) Hf). Qed.
Print Assumptions C11_fault_counters_tolerant.

(* ---- the whole response of read_dtc_information: with the tolerance on, n trailing zero bytes change nothing (the decoded values
   themselves: C02) ------------------------------------------------------------------------------------------------------ *)
Theorem C11_dtc_by_status_mask : forall cfg sub a av l n,
  In sub [2; 10; 11; 12; 13; 14; 15; 19; 21] -> Forall wf_rec4 l -> Forall (fun x => x <> (0, 0)) l -> tol_pad cfg = true -> ign_zero cfg = true ->
  rdtci_decode cfg sub a ([sub; av] ++ recs4 l ++ repeat 0 n) = rdtci_decode cfg sub a ([sub; av] ++ recs4 l).
Proof. exact dtc_list_padding. Qed.
Print Assumptions C11_dtc_by_status_mask.
Theorem C11_severity : forall cfg sub a av l n,
  In sub [8; 9] -> Forall wf_rec6 l -> Forall (fun x => x <> (0, 0, 0, 0)) l -> tol_pad cfg = true -> ign_zero cfg = true ->
  rdtci_decode cfg sub a ([sub; av] ++ flat_map rec6 l ++ repeat 0 n) = rdtci_decode cfg sub a ([sub; av] ++ flat_map rec6 l).
Proof. exact severity_padding. Qed.
Theorem C11_fault_detection_counters : forall cfg a l n,
  Forall wf_rec4 l -> Forall (fun x => x <> (0, 0)) l -> tol_pad cfg = true -> ign_zero cfg = true ->
  rdtci_decode cfg 20 a ([20] ++ recs4 l ++ repeat 0 n) = rdtci_decode cfg 20 a ([20] ++ recs4 l).
Proof. exact fault_counters_padding. Qed.
Theorem C11_snapshot_identification : forall cfg a l n,
  Forall wf_rec4 l -> Forall (fun x => x <> (0, 0)) l -> tol_pad cfg = true -> ign_zero cfg = true ->
  rdtci_decode cfg 3 a ([3] ++ recs4 l ++ repeat 0 n) = rdtci_decode cfg 3 a ([3] ++ recs4 l).
Proof. exact snapshot_identification_padding. Qed.
Theorem C11_snapshots_by_record_number : forall cfg a l n,
  1 <= snap_did cfg <= 8 -> Forall (wf_srec (pc_of cfg)) l -> l <> [] -> tol_pad cfg = true ->
  rdtci_decode cfg 5 a ([5] ++ flat_map (srec (Z.to_nat (snap_did cfg))) l ++ repeat 0 n)
  = rdtci_decode cfg 5 a ([5] ++ flat_map (srec (Z.to_nat (snap_did cfg))) l).
Proof. exact snapshots_by_record_padding. Qed.
Theorem C11_wwh_obd : forall cfg a fg sa sva fmt l n,
  2020 <= std cfg -> 0 <= fg <= 254 -> (fmt = 4 \/ fmt = 2) -> Forall wf_rec5 l -> Forall (fun x => x <> (0, 0, 0)) l ->
  tol_pad cfg = true -> ign_zero cfg = true ->
  rdtci_decode cfg 66 a ([66; fg; sa; sva; fmt] ++ flat_map rec5 l ++ repeat 0 n) = rdtci_decode cfg 66 a ([66; fg; sa; sva; fmt] ++ flat_map rec5 l).
Proof. exact wwh_obd_padding. Qed.
(* ... and with ignore_all_zero_dtc off, up to a whole record of padding (n < 4 + size) *)
Theorem C11_extended_data_by_record_number : forall cfg a recnum size l n,
  2020 <= std cfg -> 0 <= recnum <= 239 -> ext_size_of cfg a = inr size -> Forall (wf_erec size) l -> NoDup (map eid l) ->
  tol_pad cfg = true -> (ign_zero cfg = true \/ (n < size + 4)%nat) ->
  rdtci_decode cfg 22 a ([22; recnum] ++ flat_map erec l ++ repeat 0 n) = rdtci_decode cfg 22 a ([22; recnum] ++ flat_map erec l).
Proof. exact extdata_by_record_padding. Qed.
Print Assumptions C11_extended_data_by_record_number.

(* ---- the exception clause: tolerance on, ignore_all_zero_dtc off: every whole all-zero record among the n padding bytes is a genuine
   record (DTC 0), what is left over is padding - for the four record shapes, any record list, any n -------------------------------- *)
Theorem C11_zero_records_kept : forall pc sub l pre acc n fuel,
  Forall wf_rec4 l -> pc_tol pc = true -> pc_ign pc = false -> (List.length l + n < fuel)%nat ->
  loop_records fuel pc sub false (pre ++ recs4 l ++ repeat 0 n) (List.length pre) acc = inr (acc ++ map dtc4 l ++ repeat dtc_zero (n / 4)).
Proof. exact loop_records_zero_records_kept. Qed.
Print Assumptions C11_zero_records_kept.
Theorem C11_zero_severity_records_kept : forall pc sub l pre acc n fuel,
  Forall wf_rec6 l -> pc_tol pc = true -> pc_ign pc = false -> (List.length l + n < fuel)%nat ->
  loop_records fuel pc sub true (pre ++ flat_map rec6 l ++ repeat 0 n) (List.length pre) acc = inr (acc ++ map dtc6 l ++ repeat dtc6_zero (n / 6)).
Proof. exact loop_records6_zero_records_kept. Qed.
Theorem C11_zero_fault_counters_kept : forall pc l pre acc n fuel,
  Forall wf_rec4 l -> pc_tol pc = true -> pc_ign pc = false -> (List.length l + n < fuel)%nat ->
  loop_pairs fuel pc true (pre ++ recs4 l ++ repeat 0 n) (List.length pre) acc = inr (acc ++ map dtcf l ++ repeat dtcf_zero (n / 4)).
Proof. exact loop_fault_counters_zero_records_kept. Qed.
Theorem C11_zero_wwh_records_kept : forall pc l acc fuel n,
  Forall wf_rec5 l -> pc_tol pc = true -> pc_ign pc = false -> (List.length l + n < fuel)%nat ->
  loop_wwh fuel pc (flat_map rec5 l ++ repeat 0 n) acc = inr (acc ++ map dtc5 l ++ repeat dtc5_zero (n / 5)).
Proof. exact loop_wwh_zero_records_kept. Qed.
(* ... and on the whole response of the status-mask family *)
Theorem C11_dtc_by_status_mask_zero_records_kept : forall cfg sub a av l n,
  In sub [2; 10; 11; 12; 13; 14; 15; 19; 21] -> Forall wf_rec4 l -> tol_pad cfg = true -> ign_zero cfg = false ->
  rdtci_decode cfg sub a ([sub; av] ++ recs4 l ++ repeat 0 n)
  = inr {| r_echo := sub; r_memsel := -1; r_status_av := av; r_sev_av := -1; r_format := -1; r_fgid := -1;
           r_count := Z.of_nat (List.length l + n / 4); r_dtcs := map dtc4 l ++ repeat dtc_zero (n / 4) |}.
Proof. exact dtc_list_zero_records_kept. Qed.
Print Assumptions C11_dtc_by_status_mask_zero_records_kept.

(* ---- the other padding-aware services: read_memory_by_address and io_control (request_file_transfer: the C02_file_transfer theorems) ------ *)
Theorem C11_read_memory : forall cfg size r out k,
  p_data r = out ++ repeat 0 k -> Z.of_nat (List.length out) = size -> 0 < size ->
  rmba_interpret cfg size r = if (k =? 0)%nat || tol_pad cfg then inr (enc_bytes out) else inl EUnexpected.
Proof. exact rmba_padding. Qed.
Theorem C11_io_control : forall cfg did cp sh v k hm mv ms,
  0 <= did <= 65535 -> fetch_io cfg did = inr (sh, hm, mv, ms) -> check_io_entry (sh, hm, mv, ms) = inr tt ->
  0 <= sh -> Z.of_nat (List.length v) = sh -> 0 <= cp <= 255 ->
  io_interpret cfg did (Some cp) {| p_svc := None; p_code := None; p_name := EmptyString; p_positive := true; p_valid := true; p_reason := RNone;
                                    p_unexpected := false; p_data := be_enc 2 did ++ [cp] ++ v ++ repeat 0 k; p_orig := None |}
  = if (k =? 0)%nat || tol_pad cfg then inr (did :: cp :: enc_bytes v) else inl EInvalid.
Proof. exact io_padding. Qed.
Print Assumptions C11_io_control.

(* every clause of C11 now has a theorem for every padding-aware service; the correspondence (every pad length 0..2*rs+1, four
   settings) ties them to the code. *)

(* ---- the code is the rule (regenerated each run): read_memory_by_address of 2 bytes executed on a positive response carrying any 1..6 data
   bytes (tools/symtrans.py, Gen/Fn_More.v): longer data is accepted only as zero padding, and only when tolerate_zero_padding is on ---- *)
From UDS Require Import Gen.Fn_More Model.Svc_Memory Proofs.Tie_more.
Theorem C11_code_read_memory_tolerant : forall cfg d r, tol_pad cfg = true -> d <> [] -> (List.length d < 7)%nat -> p_data r = d ->
  fn_read_memory_2_tolerant d = rmba_interpret cfg 2 r.
Proof. exact tie_read_memory_2_tolerant. Qed.
Print Assumptions C11_code_read_memory_tolerant.
Theorem C11_code_read_memory_strict : forall cfg d r, tol_pad cfg = false -> d <> [] -> (List.length d < 7)%nat -> p_data r = d ->
  fn_read_memory_2_strict d = rmba_interpret cfg 2 r.
Proof. exact tie_read_memory_2_strict. Qed.
Print Assumptions C11_code_read_memory_strict.
