(* C17 - Request/Response objects round-trip via payloads; service ids are unambiguous.
   Only statements here; proofs live in Proofs/C17_lemmas.v. *)
From Coq Require Import ZArith List Bool String.
From UDS Require Import Lib.Bytes Lib.ErrM Lib.PyOps Gen.ServiceTable Model.Message Proofs.C17_lemmas.
Import ListNotations.
Open Scope Z_scope.

(* every service, every subfunction 0..0x7F (for services that have one), either flag value (a flag only
   where a subfunction exists), any data: payload -> parse gives back service, subfunction, flag, data *)
Theorem C17_req_roundtrip : forall s sub spr d,
  In s services -> (s_sub s = true -> 0 <= sub < 128) -> (spr = true -> s_sub s = true) ->
  exists r p, mk_request (Some s) (Some sub) spr d = inr r /\ request_payload r None = inr p /\
              parse_request p = req_expected s sub spr d.
Proof. exact req_roundtrip. Qed.
Print Assumptions C17_req_roundtrip.

(* every service, every code 0x00..0xFF, any data the format admits: same service, code, polarity
   (positive iff code = 0), data, name; parsed object valid *)
Theorem C17_resp_roundtrip : forall s code d,
  In s services -> 0 <= code <= 255 -> (code = 0 -> s_rdata s = true -> d <> []) ->
  exists r p, mk_response (Some s) (Some code) (Some d) = inr r /\ response_payload r = inr p /\
    p_positive r = (code =? 0) /\
    let q := parse_response p in
    p_svc q = Some s /\ p_code q = Some code /\ p_positive q = (code =? 0) /\ p_data q = d /\
    p_valid q = true /\ p_name q = p_name r /\ p_reason q = RNone.
Proof. exact resp_roundtrip. Qed.
Print Assumptions C17_resp_roundtrip.

(* re-encoding a parsed valid payload reproduces it, for every byte string *)
Theorem C17_reencode : forall p,
  wf_bytes p -> p_valid (parse_response p) = true -> response_payload (parse_response p) = inr p.
Proof. exact reencode. Qed.
Print Assumptions C17_reencode.

(* parsing is total (a Coq function) and yields valid-with-service-and-code or invalid-with-reason *)
Theorem C17_total : forall p,
  let q := parse_response p in
  p_orig q = Some p /\
  ((p_valid q = true /\ p_reason q = RNone /\ (exists s, p_svc q = Some s) /\ (exists c, p_code q = Some c))
   \/ (p_valid q = false /\ p_reason q <> RNone /\ p_code q = None)).
Proof. exact parse_response_total. Qed.
Print Assumptions C17_total.

(* request ids, response ids (request id + 0x40) and 0x7F are pairwise distinct; lookups invert them *)
Theorem C17_unambiguous :
  NoDup (127 :: map s_sid services ++ map (fun s => s_sid s + 64) services) /\
  (forall s, In s services ->
     from_request_id (s_sid s) = Some s /\ from_response_id (s_sid s + 64) = Some s) /\
  (forall id s, from_request_id id = Some s -> In s services /\ s_sid s = id) /\
  (forall id s, from_response_id id = Some s -> In s services /\ s_sid s + 64 = id) /\
  (forall id s t, In s services -> In t services -> s_sid s = id -> s_sid t = id -> s = t).
Proof.
  split; [exact all_ids_nodup|]. split; [intros s Hs; destruct (svc_facts s Hs) as (_&_&_&_&A&B&_); auto|].
  split; [exact from_request_id_sound|]. split; [exact from_response_id_sound|exact unambiguous_request].
Qed.
Print Assumptions C17_unambiguous.

(* ---- the code is the model (regenerated each run): Request.from_payload / Response.from_payload executed on symbolic bytes of every length
   class, Request.get_payload / Response.get_payload on symbolic fields, the service looked up by a symbolic identifier
   (tools/symtrans.py, Gen/Fn_Messages.v) ---- *)
From UDS Require Import Gen.Fn_Messages Proofs.Tie_messages.

Theorem C17_code_request_from_payload : forall p, fn_request_from_payload p = ret (enc_req (parse_request p)).
Proof. exact tie_request_from_payload. Qed.
Print Assumptions C17_code_request_from_payload.
Theorem C17_code_response_from_payload : forall p, fn_response_from_payload p = ret (obs_resp (parse_response p)).
Proof. exact tie_response_from_payload. Qed.
Print Assumptions C17_code_response_from_payload.
Theorem C17_code_request_payload : forall sid sub spr data ov,
  fn_request_payload sid sub spr data ov = (r <- mk_request (from_request_id sid) (Some sub) spr (Some data) ;; request_payload r ov).
Proof. exact tie_request_payload. Qed.
Print Assumptions C17_code_request_payload.
Theorem C17_code_response_payload : forall sid code data,
  fn_response_payload sid code data = (r <- mk_response (from_request_id sid) (Some code) (Some data) ;; response_payload r).
Proof. exact tie_response_payload. Qed.
Print Assumptions C17_code_response_payload.

(* ---- the code is the model (regenerated each run): the real Client.send_request on a symbolic clock inside / after the context managers
   (tools/symtrans.py, Gen/Fn_SendContext.v) - inside payload_override the frame sent is the override (constant / function of the request bytes), after it the request bytes again ---- *)
From UDS Require Import Gen.Fn_SendContext Model.Client Model.Services Proofs.Tie_send_common Proofs.Tie_send_flush Proofs.Tie_send_ctx.

Theorem C17_code_send_request_ov_const_silence : forall cfg T P2 P2S now, timing cfg (Some T) P2 P2S ->
  fn_send_request_ov_const_silence T P2 P2S now = ret (obs_full (send_request cfg st_ov_const tp_req (-1) now [])).
Proof. exact tie_send_request_ov_const_silence. Qed.
Print Assumptions C17_code_send_request_ov_const_silence.
Theorem C17_code_send_request_ov_const_P : forall cfg T P2 P2S now a1, timing cfg (Some T) P2 P2S ->
  fn_send_request_ov_const_P T P2 P2S now a1 = ret (obs_full (send_request cfg st_ov_const tp_req (-1) now [(a1, Frame [126; 0])])).
Proof. exact tie_send_request_ov_const_P. Qed.
Print Assumptions C17_code_send_request_ov_const_P.
Theorem C17_code_send_request_ov_fun_silence : forall cfg T P2 P2S now, timing cfg (Some T) P2 P2S ->
  fn_send_request_ov_fun_silence T P2 P2S now = ret (obs_full (send_request cfg st_ov_fun tp_req (-1) now [])).
Proof. exact tie_send_request_ov_fun_silence. Qed.
Print Assumptions C17_code_send_request_ov_fun_silence.
Theorem C17_code_send_request_ov_fun_P : forall cfg T P2 P2S now a1, timing cfg (Some T) P2 P2S ->
  fn_send_request_ov_fun_P T P2 P2S now a1 = ret (obs_full (send_request cfg st_ov_fun tp_req (-1) now [(a1, Frame [126; 0])])).
Proof. exact tie_send_request_ov_fun_P. Qed.
Print Assumptions C17_code_send_request_ov_fun_P.
Theorem C17_code_send_request_after_ov_silence : forall cfg T P2 P2S now, timing cfg (Some T) P2 P2S ->
  fn_send_request_after_ov_silence T P2 P2S now = ret (obs_full (send_request cfg st_after_ov tp_req (-1) now [])).
Proof. exact tie_send_request_after_ov_silence. Qed.
Print Assumptions C17_code_send_request_after_ov_silence.
Theorem C17_code_send_request_after_ov_P : forall cfg T P2 P2S now a1, timing cfg (Some T) P2 P2S ->
  fn_send_request_after_ov_P T P2 P2S now a1 = ret (obs_full (send_request cfg st_after_ov tp_req (-1) now [(a1, Frame [126; 0])])).
Proof. exact tie_send_request_after_ov_P. Qed.
Print Assumptions C17_code_send_request_after_ov_P.
