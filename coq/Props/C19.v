(* C19 - fixed-width helper codecs are exact inverses over their whole finite domain.  Statements only. *)
From Coq Require Import ZArith List Bool String.
From UDS Require Import Lib.Bytes Lib.ErrM Lib.PyOps Gen.Masks Gen.Maps Spec.IsoBits Model.Helpers
  Proofs.Bytes_lemmas Proofs.C19_lemmas.
Import ListNotations.
Open Scope Z_scope.

(* DTC status: every vector of the 8 flags encodes to the ISO value and decodes back; every byte decodes
   to its ISO bits and re-encodes to itself (mask 0xFF) *)
Theorem C19_status_vec : forall vals, List.length vals = List.length gen_status_fields ->
  status_enc vals = iso_flags_value iso_status_bits gen_status_fields vals /\ status_dec (status_enc vals) = vals.
Proof. exact (flags_vec_ok _ _ _ _ status_vec). Qed.
Print Assumptions C19_status_vec.
Theorem C19_status_byte : forall b, 0 <= b < 256 ->
  status_dec b = iso_flags_of_byte iso_status_bits gen_status_fields b /\
  status_enc (status_dec b) = Z.land b (iso_mask iso_status_bits).
Proof. exact (flags_byte_ok _ _ _ _ status_byte). Qed.
Print Assumptions C19_status_byte.

(* DTC severity (bits 5..7) *)
Theorem C19_severity_vec : forall vals, List.length vals = List.length gen_severity_fields ->
  severity_enc vals = iso_flags_value iso_severity_bits gen_severity_fields vals /\ severity_dec (severity_enc vals) = vals.
Proof. exact (flags_vec_ok _ _ _ _ severity_vec). Qed.
Print Assumptions C19_severity_vec.
Theorem C19_severity_byte : forall b, 0 <= b < 256 ->
  severity_dec b = iso_flags_of_byte iso_severity_bits gen_severity_fields b /\
  severity_enc (severity_dec b) = Z.land b (iso_mask iso_severity_bits).
Proof. exact (flags_byte_ok _ _ _ _ severity_byte). Qed.
Print Assumptions C19_severity_byte.

(* DTC class (bits 0..4) *)
Theorem C19_dtcclass_vec : forall vals, List.length vals = List.length gen_dtcclass_fields ->
  dtcclass_enc vals = iso_flags_value iso_dtcclass_bits gen_dtcclass_fields vals /\ dtcclass_dec (dtcclass_enc vals) = vals.
Proof. exact (flags_vec_ok _ _ _ _ dtcclass_vec). Qed.
Print Assumptions C19_dtcclass_vec.
Theorem C19_dtcclass_byte : forall b, 0 <= b < 256 ->
  dtcclass_dec b = iso_flags_of_byte iso_dtcclass_bits gen_dtcclass_fields b /\
  dtcclass_enc (dtcclass_dec b) = Z.land b (iso_mask iso_dtcclass_bits).
Proof. exact (flags_byte_ok _ _ _ _ dtcclass_byte). Qed.
Print Assumptions C19_dtcclass_byte.

Theorem C19_masks :
  List.length gen_status_fields = 8%nat /\ List.length gen_severity_fields = 3%nat /\
  List.length gen_dtcclass_fields = 5%nat /\
  iso_mask iso_status_bits = 255 /\ iso_mask iso_severity_bits = 224 /\ iso_mask iso_dtcclass_bits = 31.
Proof. exact field_counts_and_masks. Qed.

(* communication type *)
Theorem C19_commtype_roundtrip : forall subnet n m, 0 <= subnet < 16 -> n || m = true ->
  exists c, mk_commtype subnet n m = inr c /\ commtype_byte c = iso_commtype_byte subnet n m /\
            commtype_from_byte (commtype_byte c) = inr c.
Proof. exact commtype_roundtrip. Qed.
Print Assumptions C19_commtype_roundtrip.
Theorem C19_commtype_decode : forall b, 0 <= b < 256 ->
  (Z.land b 3 <> 0 -> exists c, commtype_from_byte b = inr c /\ commtype_byte c = Z.land b 243 /\
      ct_subnet c = b / 16 /\ ct_normal c = Z.testbit b 0 /\ ct_nm c = Z.testbit b 1) /\
  (Z.land b 3 = 0 -> commtype_from_byte b = inl EValue).
Proof. exact commtype_decode. Qed.
Print Assumptions C19_commtype_decode.

(* data format identifier *)
Theorem C19_dfi_roundtrip : forall c e, 0 <= c < 16 -> 0 <= e < 16 ->
  exists d, mk_dfi c e = inr d /\ dfi_byte d = iso_dfi_byte c e /\ dfi_from_byte (dfi_byte d) = inr d.
Proof. exact dfi_roundtrip. Qed.
Print Assumptions C19_dfi_roundtrip.
Theorem C19_dfi_decode : forall b, 0 <= b < 256 ->
  exists d, dfi_from_byte b = inr d /\ dfi_byte d = b /\ df_comp d = b / 16 /\ df_enc d = b mod 16.
Proof. exact dfi_decode. Qed.
Print Assumptions C19_dfi_decode.

(* address-and-length format identifier: all 64 width pairs *)
Theorem C19_alfid : forall na ns, 1 <= na <= 8 -> 1 <= ns <= 8 ->
  exists a v, mk_alfid (8 * na) (8 * ns) = inr a /\ alfid_byte a = inr v /\
              v = iso_alfid_byte (8 * na) (8 * ns) /\ v / 16 = ns /\ v mod 16 = na.
Proof. exact alfid_nibbles. Qed.
Print Assumptions C19_alfid.
Theorem C19_alfid_maps : alfid_map_ok gen_alfid_address_map = true /\ alfid_map_ok gen_alfid_memsize_map = true.
Proof. exact alfid_maps_ok. Qed.

(* baud rate: fixed table = ISO's both ways with all conversions; identifier bytes; 24-bit specific *)
Theorem C19_baud_table : baud_table_chk = true /\ baud_row_chk = true.
Proof. exact baud_table_ok. Qed.
Print Assumptions C19_baud_table.
Theorem C19_baud_identifier : forall r, 0 <= r < 256 ->
  exists b, mk_baud r gen_baud_Identifier = inr b /\ baud_bytes b = inr [r].
Proof. exact baud_identifier. Qed.
Theorem C19_baud_specific : forall r, 0 <= r <= 16777215 ->
  exists b, mk_baud r gen_baud_Specific = inr b /\ bd_rate b = r /\ baud_bytes b = inr (be_enc 3 r) /\
            be_dec (be_enc 3 r) = r.
Proof. exact baud_specific. Qed.
Print Assumptions C19_baud_specific.
Theorem C19_baud_specific_range : forall r, 16777215 < r -> mk_baud r gen_baud_Specific = inl EValue.
Proof. exact baud_specific_too_big. Qed.

(* packed 24-bit DTC number *)
Theorem C19_pack_dtc : forall d, 0 <= d < 16777216 ->
  pack_dtc d = inr (be_enc 3 d) /\ be_dec (be_enc 3 d) = d /\ wf_bytes (be_enc 3 d).
Proof. exact pack_dtc_ok. Qed.
Print Assumptions C19_pack_dtc.

(* ---- the code is the model (regenerated each run): decision trees obtained by executing CommunicationType, DataFormatIdentifier,
   AddressAndLengthFormatIdentifier and Baudrate on symbolic arguments (tools/symtrans.py) ---- *)
From UDS Require Import Gen.Fn_Codecs Proofs.Tie_codecs.

Theorem C19_code_commtype_byte : forall sn n m, fn_commtype_byte sn n m = (c <- mk_commtype sn n m ;; ret (commtype_byte c)).
Proof. exact tie_commtype_byte. Qed.
Print Assumptions C19_code_commtype_byte.
Theorem C19_code_commtype_from_byte : forall v,
  fn_commtype_from_byte v =
  (if (v <? 0) || (255 <? v) then fail EValue else c <- commtype_from_byte v ;; ret (ct_subnet c, ct_normal c, ct_nm c)).
Proof. exact tie_commtype_from_byte. Qed.
Print Assumptions C19_code_commtype_from_byte.
Theorem C19_code_dfi_byte : forall c e, fn_dfi_byte c e = (d <- mk_dfi c e ;; ret (dfi_byte d)).
Proof. exact tie_dfi_byte. Qed.
Print Assumptions C19_code_dfi_byte.
Theorem C19_code_dfi_from_byte : forall b, fn_dfi_from_byte b = (d <- dfi_from_byte b ;; ret (df_comp d, df_enc d)).
Proof. exact tie_dfi_from_byte. Qed.
Print Assumptions C19_code_dfi_from_byte.
Theorem C19_code_alfid_byte : forall af sf, fn_alfid_byte af sf = (al <- mk_alfid af sf ;; alfid_byte al).
Proof. exact tie_alfid_byte. Qed.
Print Assumptions C19_code_alfid_byte.
Theorem C19_code_baudrate : forall r t, fn_baud r t = (b <- mk_baud r t ;; ret (bd_rate b, bd_type b)).
Proof. exact tie_baud. Qed.
Print Assumptions C19_code_baudrate.
Theorem C19_code_baudrate_bytes : forall r t, fn_baud_bytes r t = (b <- mk_baud r t ;; baud_bytes b).
Proof. exact tie_baud_bytes. Qed.
Print Assumptions C19_code_baudrate_bytes.
Theorem C19_code_baudrate_effective : forall r t, fn_baud_effective r t = (b <- mk_baud r t ;; baud_effective b).
Proof. exact tie_baud_effective. Qed.
Print Assumptions C19_code_baudrate_effective.
