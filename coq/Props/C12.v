(* C12 - data written through the client is read back unchanged through a reference ECU.  Statements only.
   The reference ECU (Model/Ecu.v, written from ISO 14229-1) refines an abstract store: a map from data
   identifiers to byte strings and a byte-addressed memory.  The client side of each exchange is C07 (the frame
   sent is the ISO encoding of the arguments) and C02 / C14 (the reply decodes to the values the server encoded);
   the end-to-end composition over whole histories is checked by running the real client and the client model
   against the extracted ECU (tools/harness/pC12.py). *)
From Coq Require Import ZArith List Bool String.
From UDS Require Import Lib.Bytes Lib.ErrM Model.Message Model.Client Model.Svc_Did Model.Ecu Proofs.Bytes_lemmas Proofs.C12_lemmas.
Import ListNotations.
Open Scope Z_scope.

(* a value written to a data identifier is what a later read of that identifier returns; other identifiers,
   the memory and a transfer in progress are untouched *)
Theorem C12_did_write : forall e d1 d0 v,
  let '(e', rep) := ecu_step e (46 :: d1 :: d0 :: v) in
  rep = [110; d1; d0] /\ abs_did e' (d1 * 256 + d0) = Some v /\
  (forall k, k <> d1 * 256 + d0 -> abs_did e' k = abs_did e k) /\ e_mem e' = e_mem e /\ e_dl e' = e_dl e.
Proof. exact ecu_write_did. Qed.
Print Assumptions C12_did_write.
Theorem C12_did_read : forall e d1 d0 v, abs_did e (d1 * 256 + d0) = Some v ->
  ecu_step e [34; d1; d0] = (e, 98 :: d1 :: d0 :: v).
Proof. exact ecu_read_did. Qed.
Print Assumptions C12_did_read.

(* bytes written to a memory range are read back identical from that range, for any length and address; bytes
   outside the range are untouched *)
Theorem C12_memory_readback : forall m data addr, mem_read (mem_write m addr data) addr (List.length data) = Some data.
Proof. exact mem_read_write. Qed.
Print Assumptions C12_memory_readback.
Theorem C12_memory_frame : forall m data addr a,
  (a < addr \/ addr + Z.of_nat (List.length data) <= a) -> lookup a (mem_write m addr data) = lookup a m.
Proof. exact lookup_mem_write_outside. Qed.

(* download: request (any widths 1..8), ANY number of blocks of any sizes pushed with the counters 1, 2, .., 0xFF,
   0, .., then exit: the ECU holds exactly the concatenation of the blocks at the requested address *)
Theorem C12_download_armed : forall e dfi na ns addr size,
  (1 <= na <= 8)%nat -> (1 <= ns <= 8)%nat -> 0 <= addr < 256 ^ Z.of_nat na -> 0 <= size < 256 ^ Z.of_nat ns ->
  ecu_step e (52 :: dfi :: (16 * Z.of_nat ns + Z.of_nat na) :: be_enc na addr ++ be_enc ns size)
  = (set_dl e (Some {| dl_addr := addr; dl_size := size; dl_data := []; dl_next := 1 |}), [116; 32] ++ be_enc 2 (e_blk e)).
Proof. exact ecu_request_download. Qed.
Print Assumptions C12_download_armed.
Theorem C12_download_reassembles : forall e addr size blocks,
  let e1 := set_dl e (Some {| dl_addr := addr; dl_size := size; dl_data := []; dl_next := 1 |}) in
  let e2 := push_blocks e1 1 blocks in
  let '(e3, rep) := ecu_step e2 [55] in
  rep = [119] /\ e_dl e3 = None /\
  mem_read (e_mem e3) addr (List.length (List.concat blocks)) = Some (List.concat blocks) /\
  e_dids e3 = e_dids e.
Proof. exact download_reassembles. Qed.
Print Assumptions C12_download_reassembles.
