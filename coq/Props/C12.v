(* C12 - data written through the client is read back unchanged through a reference ECU.  Statements only.
   The reference ECU (Model/Ecu.v, written from ISO 14229-1) refines an abstract store: a map from data
   identifiers to byte strings and a byte-addressed memory.  The client side of each exchange is C07 (the frame
   sent is the ISO encoding of the arguments) and C02 / C14 (the reply decodes to the values the server encoded);
   the composition of the client model with the ECU is stated below (the theorems named ..._through_the_client) for a client outside
   suppress / override blocks whose first window admits the ECU's latency; whole histories (failing calls in between,
   blocks, latencies) are checked by running the real client and the client model against the extracted ECU
   (tools/harness/pC12.py). *)
From Coq Require Import ZArith List Bool String.
From UDS Require Import Lib.Bytes Lib.ErrM Model.Message Model.Client Model.Services Model.MemLoc Model.Svc_Did Model.Svc_Memory Model.History Model.Ecu
  Proofs.Bytes_lemmas Proofs.C12_lemmas Proofs.C12b_lemmas.
Import ListNotations.
Open Scope Z_scope.

(* a value written to a data identifier is what a later read of that identifier returns; other identifiers,
   the memory and a transfer in progress are untouched *)
Theorem C12_did_write : forall e d1 d0 v,
  let '(e', rep) := ecu_step e (46 :: d1 :: d0 :: v) in
  rep = [110; d1; d0] /\ abs_did e' (d1 * 256 + d0) = Some v /\
  (forall k, k <> d1 * 256 + d0 -> abs_did e' k = abs_did e k) /\ e_mem e' = e_mem e /\ e_dl e' = e_dl e.
Proof. exact ecu_write_did. Qed.
Print Assumptions C12_did_write.
Theorem C12_did_read : forall e d1 d0 v, abs_did e (d1 * 256 + d0) = Some v ->
  ecu_step e [34; d1; d0] = (e, 98 :: d1 :: d0 :: v).
Proof. exact ecu_read_did. Qed.
Print Assumptions C12_did_read.

(* bytes written to a memory range are read back identical from that range, for any length and address; bytes
   outside the range are untouched *)
Theorem C12_memory_readback : forall m data addr, mem_read (mem_write m addr data) addr (List.length data) = Some data.
Proof. exact mem_read_write. Qed.
Print Assumptions C12_memory_readback.
Theorem C12_memory_frame : forall m data addr a,
  (a < addr \/ addr + Z.of_nat (List.length data) <= a) -> lookup a (mem_write m addr data) = lookup a m.
Proof. exact lookup_mem_write_outside. Qed.

(* download: request (any widths 1..8), ANY number of blocks of any sizes pushed with the counters 1, 2, .., 0xFF,
   0, .., then exit: the ECU holds exactly the concatenation of the blocks at the requested address *)
Theorem C12_download_armed : forall e dfi na ns addr size,
  (1 <= na <= 8)%nat -> (1 <= ns <= 8)%nat -> 0 <= addr < 256 ^ Z.of_nat na -> 0 <= size < 256 ^ Z.of_nat ns ->
  ecu_step e (52 :: dfi :: (16 * Z.of_nat ns + Z.of_nat na) :: be_enc na addr ++ be_enc ns size)
  = (set_dl e (Some {| dl_addr := addr; dl_size := size; dl_data := []; dl_next := 1 |}), [116; 32] ++ be_enc 2 (e_blk e)).
Proof. exact ecu_request_download. Qed.
Print Assumptions C12_download_armed.
Theorem C12_download_reassembles : forall e addr size blocks,
  let e1 := set_dl e (Some {| dl_addr := addr; dl_size := size; dl_data := []; dl_next := 1 |}) in
  let e2 := push_blocks e1 1 blocks in
  let '(e3, rep) := ecu_step e2 [55] in
  rep = [119] /\ e_dl e3 = None /\
  mem_read (e_mem e3) addr (List.length (List.concat blocks)) = Some (List.concat blocks) /\
  e_dids e3 = e_dids e.
Proof. exact download_reassembles. Qed.
Print Assumptions C12_download_reassembles.

(* ---- through the client: one client call is run reactively against the ECU (`react`: the ECU processes every frame the client sends,
   its answer arrives 1 + lat microseconds later).  `plain st`: outside suppress / override blocks; `in_first_window`: the first
   window (P2, capped by the overall timeout) admits that delay.  Nothing else is assumed about configuration, clock or ECU state. -- *)

(* a value written to a data identifier with write_data_by_identifier is what read_data_by_identifier returns *)
Theorem C12_did_through_the_client : forall cfg st e did v now now2 lat,
  plain st -> in_first_window cfg st (1 + lat) -> 0 < did <= 65535 ->
  fetch_codec (pc_of cfg) did = inr (Z.of_nat (List.length v)) ->
  let '(_, st1, _, _, e1) := react 4 cfg st e (CWriteDid did v) now lat 0 [] in
  let '(out, _, _, _, e2) := react 4 cfg st1 e1 (CReadDids [did]) now2 lat 0 [] in
  (exists r, out = ORet (Some (r, enc_values [(did, v)]))) /\ e2 = e1.
Proof. exact write_then_read_composed. Qed.
Print Assumptions C12_did_through_the_client.
Theorem C12_did_write_through_the_client : forall cfg st e did v now lat,
  plain st -> in_first_window cfg st (1 + lat) -> 0 <= did <= 65535 ->
  (exists sh, fetch_codec (pc_of cfg) did = inr sh /\ (sh < 0 \/ Z.of_nat (List.length v) = sh)) ->
  let '(out, st', t, tr, e') := react 4 cfg st e (CWriteDid did v) now lat 0 [] in
  (exists r, out = ORet (Some (r, [did]))) /\ st' = st /\ t = now + 1 + lat /\
  sent_frames tr = [46 :: be_enc 2 did ++ v] /\
  abs_did e' did = Some v /\ (forall k, k <> did -> abs_did e' k = abs_did e k) /\ e_mem e' = e_mem e /\ e_dl e' = e_dl e.
Proof. exact write_did_composed. Qed.

(* bytes written to a memory range with write_memory_by_address are what read_memory_by_address of that range returns, for every
   width combination the location resolves to (explicit, configured or automatic: C14) *)
Theorem C12_memory_through_the_client : forall cfg st e addr af sf data m na ns now now2 lat,
  plain st -> in_first_window cfg st (1 + lat) -> data <> [] ->
  resolves cfg addr (Z.of_nat (List.length data)) af sf m na ns ->
  let '(_, st1, _, _, e1) := react 4 cfg st e (CWriteMem addr (Z.of_nat (List.length data)) af sf data) now lat 0 [] in
  let '(out, _, _, _, e2) := react 4 cfg st1 e1 (CReadMem addr (Z.of_nat (List.length data)) af sf) now2 lat 0 [] in
  (exists r, out = ORet (Some (r, enc_bytes data))) /\ e2 = e1.
Proof. exact write_then_read_mem_composed. Qed.
Print Assumptions C12_memory_through_the_client.

(* request_download, any number of blocks of any sizes pushed with transfer_data (counters 1, 2, .., 0xFF, 0, ..), request_transfer_exit:
   the ECU holds exactly the concatenation of the blocks at the requested address; the data identifiers are untouched *)
Theorem C12_download_through_the_client : forall cfg st e addr size af sf m na ns blocks now lat now3,
  plain st -> in_first_window cfg st (1 + lat) -> resolves cfg addr size af sf m na ns -> 0 <= e_blk e < 65536 ->
  let '(_, st1, t1, _, e1) := react 4 cfg st e (CUpDown false addr size af sf None) now lat 0 [] in
  let e2 := client_push cfg st1 e1 1 blocks t1 lat in
  let '(out, _, _, _, e3) := react 4 cfg st1 e2 (CTransferExit None) now3 lat 0 [] in
  (exists r, out = ORet (Some (r, [0]))) /\ e_dl e3 = None /\
  mem_read (e_mem e3) addr (List.length (List.concat blocks)) = Some (List.concat blocks) /\ e_dids e3 = e_dids e.
Proof. exact download_composed. Qed.
Print Assumptions C12_download_through_the_client.
(* ... where pushing the blocks through the client is pushing them into the ECU *)
Theorem C12_blocks_through_the_client : forall cfg st lat, plain st -> in_first_window cfg st (1 + lat) ->
  forall blocks e d ctr now, e_dl e = Some d -> ctr = dl_next d -> 0 <= ctr <= 255 ->
  client_push cfg st e ctr blocks now lat = push_blocks e ctr blocks.
Proof. exact client_push_is_push_blocks. Qed.

(* ---- "after any preceding sequence of successful or failed calls": the statements above hold for every ECU state and every client state
   outside a block, so they apply after any history; for writes this gives the last-write-wins form directly -------------------------- *)
Theorem C12_last_write_wins : forall cfg st lat, plain st -> in_first_window cfg st (1 + lat) ->
  forall ws e now, Forall (wf_write cfg) ws ->
  forall did, abs_did (client_writes cfg st e ws now lat) did = match last_write ws did with Some v => Some v | None => abs_did e did end.
Proof. exact client_writes_last. Qed.
Theorem C12_read_after_any_writes : forall cfg st lat, plain st -> in_first_window cfg st (1 + lat) ->
  forall ws e now now2 did v, Forall (wf_write cfg) ws -> last_write ws did = Some v ->
  0 < did <= 65535 -> fetch_codec (pc_of cfg) did = inr (Z.of_nat (List.length v)) ->
  let e1 := client_writes cfg st e ws now lat in
  let '(out, _, _, _, e2) := react 4 cfg st e1 (CReadDids [did]) now2 lat 0 [] in
  (exists r, out = ORet (Some (r, enc_values [(did, v)]))) /\ e2 = e1.
Proof. exact read_after_writes. Qed.
Print Assumptions C12_read_after_any_writes.
(* a call refused before anything is sent leaves the ECU, the client state and the clock untouched *)
Theorem C12_refused_call_changes_nothing : forall cfg st e c now lat mk interp er,
  (forall n s, run_inner cfg st c n s = single_request cfg st mk interp no_post n s) -> mk = inl er ->
  exists out, react 4 cfg st e c now lat 0 [] = (out, st, now, [], e).
Proof. exact react_rejected. Qed.
