(* C20 - identifier-to-name lookups are faithful for every identifier value.  Statements only. *)
From Coq Require Import ZArith List Bool String.
From UDS Require Import Lib.Bytes Lib.ErrM Gen.Subfunctions Gen.Ids Gen.Nrc Spec.IsoRanges
  Model.Message Model.Names Proofs.C20_lemmas.
Import ListNotations.
Open Scope string_scope.
Open Scope Z_scope.

(* every subfunction table of the library, every value of the byte: the name of a constant equal to the
   value; a range constant only inside its range; otherwise "Custom <pretty name>" *)
Theorem C20_subfn : forall t v,
  In t subfn_tables -> 0 <= v < 256 -> subfn_name_spec t v (subfn_get_name t v).
Proof. exact subfn_names_faithful. Qed.
Print Assumptions C20_subfn.

(* every response code: the name of a constant with exactly that value, else the decimal rendering *)
Theorem C20_nrc : forall code, 0 <= code < 256 -> nrc_name_spec code (nrc_name code).
Proof. exact nrc_names_faithful. Qed.
Print Assumptions C20_nrc.

(* every data identifier: its constant's name (optionally suffixed DataIdentifier) when one is defined,
   else the ISO category of the hand-written partition of 0..0xFFFF; never None, never an error *)
Theorem C20_did : forall v, 0 <= v < 65536 ->
  exists n, did_name_from_id v = inr (Some n) /\
            id_name_spec gen_did_consts iso_did_ranges "DataIdentifier" v n.
Proof. exact did_names_faithful. Qed.
Print Assumptions C20_did.

Theorem C20_routine : forall v, 0 <= v < 65536 ->
  exists n, routine_name_from_id v = inr (Some n) /\
            id_name_spec gen_routine_consts iso_routine_ranges "" v n.
Proof. exact routine_names_faithful. Qed.
Print Assumptions C20_routine.

Theorem C20_iso_partitions :
  partition_from 0 iso_did_ranges = true /\ partition_from 0 iso_routine_ranges = true.
Proof. exact iso_partitions. Qed.
Print Assumptions C20_iso_partitions.

Theorem C20_dtc_format : forall v, 0 <= v < 256 -> dtc_format_spec v (dtc_format_name v).
Proof. exact dtc_format_faithful. Qed.
Print Assumptions C20_dtc_format.
