(* C20 - identifier-to-name lookups are faithful for every identifier value.  Statements only. *)
From Coq Require Import ZArith List Bool String.
From UDS Require Import Lib.Bytes Lib.ErrM Gen.Subfunctions Gen.Ids Gen.Nrc Spec.IsoRanges
  Model.Message Model.Names Proofs.C20_lemmas.
Import ListNotations.
Open Scope string_scope.
Open Scope Z_scope.

(* every subfunction table of the library, every value of the byte: the name of a constant equal to the
   value; a range constant only inside its range; otherwise "Custom <pretty name>" *)
Theorem C20_subfn : forall t v,
  In t subfn_tables -> 0 <= v < 256 -> subfn_name_spec t v (subfn_get_name t v).
Proof. exact subfn_names_faithful. Qed.
Print Assumptions C20_subfn.

(* every response code: the name of a constant with exactly that value, else the decimal rendering *)
Theorem C20_nrc : forall code, 0 <= code < 256 -> nrc_name_spec code (nrc_name code).
Proof. exact nrc_names_faithful. Qed.
Print Assumptions C20_nrc.

(* every data identifier: its constant's name (optionally suffixed DataIdentifier) when one is defined,
   else the ISO category of the hand-written partition of 0..0xFFFF; never None, never an error *)
Theorem C20_did : forall v, 0 <= v < 65536 ->
  exists n, did_name_from_id v = inr (Some n) /\
            id_name_spec gen_did_consts iso_did_ranges "DataIdentifier" v n.
Proof. exact did_names_faithful. Qed.
Print Assumptions C20_did.

Theorem C20_routine : forall v, 0 <= v < 65536 ->
  exists n, routine_name_from_id v = inr (Some n) /\
            id_name_spec gen_routine_consts iso_routine_ranges "" v n.
Proof. exact routine_names_faithful. Qed.
Print Assumptions C20_routine.

Theorem C20_iso_partitions :
  partition_from 0 iso_did_ranges = true /\ partition_from 0 iso_routine_ranges = true.
Proof. exact iso_partitions. Qed.
Print Assumptions C20_iso_partitions.

Theorem C20_dtc_format : forall v, 0 <= v < 256 -> dtc_format_spec v (dtc_format_name v).
Proof. exact dtc_format_faithful. Qed.
Print Assumptions C20_dtc_format.

(* ---- the code is the model (regenerated each run): every lookup executed on a symbolic identifier (tools/symtrans.py, Gen/Fn_Names.v):
   the lookup algorithm of the code - member order, matching rule for constants and ranges, fallback - is the model's ---- *)
From UDS Require Import Gen.Fn_Names Proofs.Tie_names.

Theorem C20_code_AccessTimingParameter_AccessType : forall v, fn_name_AccessTimingParameter_AccessType v = ret (subfn_get_name (table "AccessTimingParameter" "AccessType") v).
Proof. exact tie_name_AccessTimingParameter_AccessType. Qed.
Print Assumptions C20_code_AccessTimingParameter_AccessType.
Theorem C20_code_Authentication_AuthenticationTask : forall v, fn_name_Authentication_AuthenticationTask v = ret (subfn_get_name (table "Authentication" "AuthenticationTask") v).
Proof. exact tie_name_Authentication_AuthenticationTask. Qed.
Print Assumptions C20_code_Authentication_AuthenticationTask.
Theorem C20_code_CommunicationControl_ControlType : forall v, fn_name_CommunicationControl_ControlType v = ret (subfn_get_name (table "CommunicationControl" "ControlType") v).
Proof. exact tie_name_CommunicationControl_ControlType. Qed.
Print Assumptions C20_code_CommunicationControl_ControlType.
Theorem C20_code_ControlDTCSetting_SettingType : forall v, fn_name_ControlDTCSetting_SettingType v = ret (subfn_get_name (table "ControlDTCSetting" "SettingType") v).
Proof. exact tie_name_ControlDTCSetting_SettingType. Qed.
Print Assumptions C20_code_ControlDTCSetting_SettingType.
Theorem C20_code_DiagnosticSessionControl_Session : forall v, fn_name_DiagnosticSessionControl_Session v = ret (subfn_get_name (table "DiagnosticSessionControl" "Session") v).
Proof. exact tie_name_DiagnosticSessionControl_Session. Qed.
Print Assumptions C20_code_DiagnosticSessionControl_Session.
Theorem C20_code_DynamicallyDefineDataIdentifier_Subfunction : forall v, fn_name_DynamicallyDefineDataIdentifier_Subfunction v = ret (subfn_get_name (table "DynamicallyDefineDataIdentifier" "Subfunction") v).
Proof. exact tie_name_DynamicallyDefineDataIdentifier_Subfunction. Qed.
Print Assumptions C20_code_DynamicallyDefineDataIdentifier_Subfunction.
Theorem C20_code_ECUReset_ResetType : forall v, fn_name_ECUReset_ResetType v = ret (subfn_get_name (table "ECUReset" "ResetType") v).
Proof. exact tie_name_ECUReset_ResetType. Qed.
Print Assumptions C20_code_ECUReset_ResetType.
Theorem C20_code_InputOutputControlByIdentifier_ControlParam : forall v, fn_name_InputOutputControlByIdentifier_ControlParam v = ret (subfn_get_name (table "InputOutputControlByIdentifier" "ControlParam") v).
Proof. exact tie_name_InputOutputControlByIdentifier_ControlParam. Qed.
Print Assumptions C20_code_InputOutputControlByIdentifier_ControlParam.
Theorem C20_code_LinkControl_ControlType : forall v, fn_name_LinkControl_ControlType v = ret (subfn_get_name (table "LinkControl" "ControlType") v).
Proof. exact tie_name_LinkControl_ControlType. Qed.
Print Assumptions C20_code_LinkControl_ControlType.
Theorem C20_code_ReadDTCInformation_Subfunction : forall v, fn_name_ReadDTCInformation_Subfunction v = ret (subfn_get_name (table "ReadDTCInformation" "Subfunction") v).
Proof. exact tie_name_ReadDTCInformation_Subfunction. Qed.
Print Assumptions C20_code_ReadDTCInformation_Subfunction.
Theorem C20_code_RequestFileTransfer_ModeOfOperation : forall v, fn_name_RequestFileTransfer_ModeOfOperation v = ret (subfn_get_name (table "RequestFileTransfer" "ModeOfOperation") v).
Proof. exact tie_name_RequestFileTransfer_ModeOfOperation. Qed.
Print Assumptions C20_code_RequestFileTransfer_ModeOfOperation.
Theorem C20_code_RoutineControl_ControlType : forall v, fn_name_RoutineControl_ControlType v = ret (subfn_get_name (table "RoutineControl" "ControlType") v).
Proof. exact tie_name_RoutineControl_ControlType. Qed.
Print Assumptions C20_code_RoutineControl_ControlType.
Theorem C20_code_nrc : forall v, nrc_named v = true -> fn_name_nrc v = ret (nrc_name v).
Proof. exact tie_name_nrc. Qed.
Print Assumptions C20_code_nrc.
Theorem C20_code_did : forall v, fn_name_did v = did_name_from_id v.
Proof. exact tie_name_did. Qed.
Print Assumptions C20_code_did.
Theorem C20_code_routine : forall v, fn_name_routine v = routine_name_from_id v.
Proof. exact tie_name_routine. Qed.
Print Assumptions C20_code_routine.
Theorem C20_code_dtc_format : forall v, fn_name_dtc_format v = ret (dtc_format_name v).
Proof. exact tie_name_dtc_format. Qed.
Print Assumptions C20_code_dtc_format.
