(* placeholder until the echo proofs are written *)
From Coq Require Import ZArith.
Theorem C03_placeholder : True. Proof. exact I. Qed.
