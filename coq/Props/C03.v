(* C03 - a response is accepted only if it answers the request that was actually sent.  Statements only. *)
From Coq Require Import ZArith List Bool String.
From UDS Require Import Lib.Bytes Lib.ErrM Model.Message Model.Client Model.Services Model.Helpers Model.MemLoc
  Model.Svc_Simple Model.Svc_Memory Model.Svc_Did Model.Svc_File Model.Svc_Dtc Model.History
  Proofs.C05_lemmas Proofs.Client_lemmas Proofs.C03_lemmas.
Import ListNotations.
Open Scope Z_scope.

(* every byte string as reply, any schedule: a response object is handed on only if its service identifier is the
   request's (+0x40), it is positive and valid *)
Theorem C03_service_id : forall cfg st rq to now s r sv,
  q_svc rq = Some sv ->
  wl_res (send_request cfg st rq to now s) = COk (Some r) ->
  exists rs, p_svc r = Some rs /\ s_sid rs = s_sid sv /\ p_positive r = true /\ p_valid r = true.
Proof. exact send_request_accepts. Qed.
Print Assumptions C03_service_id.

(* a client method returns a response only when send_request accepted it AND the service's decoding + echo
   comparison succeeded on it *)
Theorem C03_accept_implies_checked : forall cfg st mk interp post now s r sd rq,
  mk = inr rq ->
  (let '(res, _, _, _, _) := single_request cfg st mk interp post now s in res = COk (Some (r, sd))) ->
  interp r = inr sd /\ wl_res (send_request cfg st rq (-1) now s) = COk (Some r).
Proof. exact single_request_accepts. Qed.
Print Assumptions C03_accept_implies_checked.

(* success of each service's check => the echoed fields of the response are the request's, for ALL response bytes *)
Theorem C03_session : forall cfg session r sd, dsc_interpret cfg session r = inr sd -> exists rest, p_data r = session :: rest.
Proof. exact dsc_echo. Qed.
Theorem C03_security_level : forall k level r sd, sa_interpret k level r = inr sd ->
  exists lv rest, normalize_level k level = inr lv /\ p_data r = lv :: rest.
Proof. exact sa_echo. Qed.
Theorem C03_tester_present : forall r sd, tp_interpret r = inr sd -> exists rest, p_data r = 0 :: rest.
Proof. exact tp_echo. Qed.
Theorem C03_reset_type : forall t r sd, er_interpret t r = inr sd -> exists rest, p_data r = t :: rest.
Proof. exact er_echo. Qed.
Theorem C03_routine : forall rid ct r sd, rc_interpret rid ct r = inr sd ->
  exists i1 i0 rec, p_data r = ct :: i1 :: i0 :: rec /\ i1 * 256 + i0 = rid.
Proof. exact rc_echo. Qed.
Theorem C03_access_type : forall a r sd, atp_interpret a r = inr sd -> exists rest, p_data r = a :: rest.
Proof. exact atp_echo. Qed.
Theorem C03_subfunction_echo : forall x r sd, echo1_interpret x r = inr sd -> exists rest, p_data r = x :: rest.
Proof. exact echo1_echo. Qed.
Theorem C03_block_sequence_counter : forall seq r sd, td_interpret seq r = inr sd -> exists rest, p_data r = seq :: rest.
Proof. exact td_echo. Qed.
Theorem C03_written_did : forall did r sd, wdbi_interpret did r = inr sd ->
  exists d1 d0 rest, p_data r = d1 :: d0 :: rest /\ d1 * 256 + d0 = did.
Proof. exact wdbi_echo. Qed.
Theorem C03_memory_echo : forall cfg a s af sf r sd, wmba_interpret cfg a s af sf r = inr sd ->
  exists m ab sb b, client_memloc cfg a s af sf = inr m /\ addr_bytes m = inr ab /\ size_bytes m = inr sb /\
    alfid_byte (ml_alfid m) = inr b /\
    nth 0 (p_data r) 0 = b /\
    be_dec (firstn (List.length ab) (skipn 1 (p_data r))) = a /\
    be_dec (firstn (List.length sb) (skipn (1 + List.length ab) (p_data r))) = s /\
    (1 + List.length ab + List.length sb <= List.length (p_data r))%nat.
Proof. exact wmba_echo_checked. Qed.
Theorem C03_dynamic_did : forall sub did must r sd, dddi_interpret sub did must r = inr sd ->
  exists rest, p_data r = sub :: rest /\
    match did with
    | Some d => (exists d1 d0 tl, rest = d1 :: d0 :: tl /\ d1 * 256 + d0 = d) \/ (must = false /\ (List.length rest < 2)%nat)
    | None => True
    end.
Proof. exact dddi_echo. Qed.
Theorem C03_io_control : forall cfg did cp r sd, io_interpret cfg did cp r = inr sd ->
  be_dec (firstn 2 (p_data r)) = did /\
  match cp with Some c => nth 2 (p_data r) 0 = c /\ (3 <= List.length (p_data r))%nat | None => (2 <= List.length (p_data r))%nat end.
Proof. exact io_echo. Qed.
Theorem C03_file_transfer : forall cfg moop d r sd, rft_interpret cfg moop d r = inr sd ->
  nth 0 sd (-1) = moop /\ (exists rest, p_data r = moop :: rest) /\
  (((moop =? 1) || (moop =? 3) || (moop =? 4) || (moop =? 6) = true) ->
     nth 2 sd (-1) = match d with Some (c, e) => 16 * c + e | None => 0 end).
Proof. exact rft_echo. Qed.
Theorem C03_authentication_task : forall task r sd, auth_interpret task r = inr sd -> exists retv rest, p_data r = task :: retv :: rest.
Proof. exact auth_echo. Qed.
Theorem C03_read_dids : forall cfg l r vals, rdbi_interpret cfg l r = inr vals ->
  (forall k v, In (k, v) vals -> In k l) /\ (forall k, In k l -> exists v, In (k, v) vals).
Proof. exact rdbi_echo. Qed.
Theorem C03_dtc_subfunction : forall cfg sub a r sd, rdtci_interpret cfg sub a r = inr sd ->
  exists x, rdtci_decode cfg sub a (p_data r) = inr x /\ r_echo x = sub /\ rdtci_client_checks sub a x = inr tt /\
            (exists rest, p_data r = sub :: rest).
Proof. exact rdtci_echo. Qed.
Theorem C03_dtc_memory_selection : forall sub a x ms, rdtci_client_checks sub a x = inr tt ->
  (sub = 23 \/ sub = 24 \/ sub = 25) -> da_memsel a = Some ms -> r_memsel x = ms.
Proof. exact rdtci_checks_memsel. Qed.
Theorem C03_dtc_functional_group : forall sub a x g, rdtci_client_checks sub a x = inr tt ->
  (sub = 85 \/ sub = 66) -> da_fgid a = Some g -> r_fgid x = g.
Proof. exact rdtci_checks_fgid. Qed.
Theorem C03_dtc_snapshot_dtc : forall sub a x one want, rdtci_client_checks sub a x = inr tt ->
  (sub = 4 \/ sub = 24) -> r_dtcs x = [one] -> da_dtc a = Some want -> d_id one = want.
Proof. exact rdtci_checks_snapshot_dtc. Qed.
Print Assumptions C03_memory_echo.
Print Assumptions C03_file_transfer.
Print Assumptions C03_dtc_subfunction.

(* ---- the code is the model (regenerated each run): what each of these client methods does with a positive response carrying the data
   bytes d - the service's interpret_response and the method's echo comparisons, executed on symbolic arguments and on d of every
   length class (tools/symtrans.py, Gen/Fn_SimpleInt.v) - is the model's interpret function, for every call whose request was built ---- *)
From UDS Require Import Gen.Fn_SimpleReq Gen.Fn_SimpleInt Model.Svc_Simple Proofs.Tie_simple_common Proofs.Tie_simple_int.

Theorem C03_code_ecu_reset_interpret : forall t d r p, fn_ecu_reset_request t = inr p -> d <> [] -> p_data r = d ->
  fn_ecu_reset_interpret t d = er_interpret t r.
Proof. exact tie_ecu_reset_interpret. Qed.
Print Assumptions C03_code_ecu_reset_interpret.
Theorem C03_code_routine_control_interpret : forall rid ct data d r p, fn_routine_control_request rid ct data = inr p -> d <> [] -> p_data r = d ->
  fn_routine_control_interpret rid ct data d = rc_interpret rid ct r.
Proof. exact tie_routine_control_interpret. Qed.
Print Assumptions C03_code_routine_control_interpret.
Theorem C03_code_change_session_interpret : forall cfg sn d r p, std cfg = 2020 -> fn_change_session_request sn = inr p -> d <> [] -> p_data r = d ->
  fn_change_session_interpret sn d = dsc_interpret cfg sn r.
Proof. exact tie_change_session_interpret. Qed.
Print Assumptions C03_code_change_session_interpret.
Theorem C03_code_change_session_2006_interpret : forall cfg sn d r p, std cfg = 2006 -> fn_change_session_2006_request sn = inr p -> d <> [] -> p_data r = d ->
  fn_change_session_2006_interpret sn d = dsc_interpret cfg sn r.
Proof. exact tie_change_session_2006_interpret. Qed.
Print Assumptions C03_code_change_session_2006_interpret.
Theorem C03_code_request_seed_interpret : forall level data d r p, fn_request_seed_request level data = inr p -> d <> [] -> p_data r = d ->
  fn_request_seed_interpret level data d = sa_interpret false level r.
Proof. exact tie_request_seed_interpret. Qed.
Print Assumptions C03_code_request_seed_interpret.
Theorem C03_code_send_key_interpret : forall level key d r p, fn_send_key_request level key = inr p -> d <> [] -> p_data r = d ->
  fn_send_key_interpret level key d = sa_interpret true level r.
Proof. exact tie_send_key_interpret. Qed.
Print Assumptions C03_code_send_key_interpret.
Theorem C03_code_access_timing_parameter_interpret : forall a rc d r p, fn_access_timing_parameter_request a rc = inr p -> d <> [] -> p_data r = d ->
  fn_access_timing_parameter_interpret a rc d = atp_interpret a r.
Proof. exact tie_access_timing_parameter_interpret. Qed.
Print Assumptions C03_code_access_timing_parameter_interpret.
Theorem C03_code_transfer_data_interpret : forall sq data d r p, fn_transfer_data_request sq data = inr p -> d <> [] -> p_data r = d ->
  fn_transfer_data_interpret sq data d = td_interpret sq r.
Proof. exact tie_transfer_data_interpret. Qed.
Print Assumptions C03_code_transfer_data_interpret.
Theorem C03_code_control_dtc_setting_interpret : forall t data d r p, fn_control_dtc_setting_request t data = inr p -> d <> [] -> p_data r = d ->
  fn_control_dtc_setting_interpret t data d = echo1_interpret t r.
Proof. exact tie_control_dtc_setting_interpret. Qed.
Print Assumptions C03_code_control_dtc_setting_interpret.
Theorem C03_code_tester_present_interpret : forall d r, d <> [] -> p_data r = d -> fn_tester_present_interpret d = tp_interpret r.
Proof. exact tie_tester_present_interpret. Qed.
Print Assumptions C03_code_tester_present_interpret.

(* ---- the code is the model: write_memory_by_address with explicit formats and the server's echo (tools/symtrans.py, Gen/Fn_MemoryEcho.v) ---- *)
From UDS Require Import Gen.Fn_MemoryEcho Model.Svc_Memory Proofs.Tie_simple_common Proofs.Tie_memory_echo.
Theorem C03_code_write_memory_request_16_8 : forall cfg a s data, no_server_formats cfg ->
  fn_write_memory_request_16_8 a s data = payload_of (wmba_make cfg a s (Some 16) (Some 8) data).
Proof. exact tie_write_memory_request_16_8. Qed.
Print Assumptions C03_code_write_memory_request_16_8.
Theorem C03_code_write_memory_echo_16_8 : forall cfg a s data d r p, no_server_formats cfg ->
  fn_write_memory_request_16_8 a s data = inr p -> d <> [] -> (List.length d < 6)%nat -> p_data r = d ->
  fn_write_memory_interpret_16_8 a s data d = wmba_interpret cfg a s (Some 16) (Some 8) r.
Proof. exact tie_write_memory_interpret_16_8. Qed.
Print Assumptions C03_code_write_memory_echo_16_8.
Theorem C03_code_write_memory_request_64_64 : forall cfg a s data, no_server_formats cfg ->
  fn_write_memory_request_64_64 a s data = payload_of (wmba_make cfg a s (Some 64) (Some 64) data).
Proof. exact tie_write_memory_request_64_64. Qed.
Print Assumptions C03_code_write_memory_request_64_64.
Theorem C03_code_write_memory_echo_64_64 : forall cfg a s data d r p, no_server_formats cfg ->
  fn_write_memory_request_64_64 a s data = inr p -> (17 <= List.length d < 19)%nat -> p_data r = d ->
  fn_write_memory_interpret_64_64 a s data d = wmba_interpret cfg a s (Some 64) (Some 64) r.
Proof. exact tie_write_memory_interpret_64_64. Qed.
Print Assumptions C03_code_write_memory_echo_64_64.

(* ---- the code is the model: clear_dynamically_defined_did echo checks (Gen/Fn_More.v) ---- *)
From UDS Require Import Gen.Fn_More Proofs.Tie_more.
Theorem C03_code_clear_did_interpret : forall did d r p, fn_clear_did_request did = inr p -> d <> [] -> p_data r = d ->
  fn_clear_did_interpret did d = dddi_interpret 3 (Some did) true r.
Proof. exact tie_clear_did_interpret. Qed.
Print Assumptions C03_code_clear_did_interpret.

From UDS Require Import Proofs.Tie_commctl.
Theorem C03_code_communication_control_interpret : forall ct v node d r p, fn_communication_control_request ct v node = inr p -> d <> [] -> p_data r = d ->
  fn_communication_control_interpret ct v node d = echo1_interpret ct r.
Proof. exact tie_communication_control_interpret. Qed.
Print Assumptions C03_code_communication_control_interpret.
