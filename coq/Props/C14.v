(* placeholder until the proofs are written *)
From Coq Require Import ZArith.
Theorem C14_placeholder : True. Proof. exact I. Qed.
