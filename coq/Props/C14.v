(* C14 - memory address/size widths: explicit, else configured, else smallest; lossless.  Statements only. *)
From Coq Require Import ZArith List Bool String.
From UDS Require Import Lib.Bytes Lib.ErrM Lib.PyOps Gen.Maps Model.Message Model.Client Model.Helpers Model.MemLoc
  Model.Svc_Memory Proofs.Bytes_lemmas Proofs.C14_lemmas.
Import ListNotations.
Open Scope Z_scope.

(* precedence, for every address and size 0 .. 2^64-1, every explicit and every configured format: the widths of
   the location the client transmits are the caller's explicit format, else the configured server format, else the
   smallest whole number of bytes (at least one) holding the value; they are formats of 1..8 bytes *)
Theorem C14_precedence : forall cfg addr size af sf m,
  0 <= addr < 2 ^ 64 -> 0 <= size < 2 ^ 64 ->
  client_memloc cfg addr size af sf = inr m ->
  ml_addr m = addr /\ ml_size m = size /\
  al_addr (ml_alfid m) = chosen_format af (srv_addr cfg) addr /\
  al_size (ml_alfid m) = chosen_format sf (srv_size cfg) size /\
  valid_format (al_addr (ml_alfid m)) /\ valid_format (al_size (ml_alfid m)).
Proof. exact client_memloc_precedence. Qed.
Print Assumptions C14_precedence.

(* "smallest": it holds the value and no smaller width of at least one byte does *)
Theorem C14_smallest : forall v, 0 <= v ->
  v < 256 ^ smallest_bytes v /\ (forall n, 1 <= n -> v < 256 ^ n -> smallest_bytes v <= n) /\ 1 <= smallest_bytes v.
Proof.
  intros v Hv. split; [apply smallest_holds; exact Hv|]. split; [intros n; apply smallest_minimal; exact Hv|].
  unfold smallest_bytes. apply Z.le_max_l.
Qed.
Print Assumptions C14_smallest.

Theorem C14_autosize : forall v, 0 <= v ->
  (v < 2 ^ 64 -> autosize v = inr (8 * smallest_bytes v) /\ 1 <= smallest_bytes v <= 8) /\
  (2 ^ 64 <= v -> autosize v = inl EValue).
Proof. exact autosize_spec. Qed.
Print Assumptions C14_autosize.

(* announced = transmitted, and lossless: the format byte is 16 x (size bytes) + (address bytes); the address and
   the size follow big-endian in exactly those widths and decode back; a value that does not fit its width (or is
   negative) is refused instead of being cut *)
Theorem C14_wire : forall m na ns,
  1 <= na <= 8 -> 1 <= ns <= 8 ->
  al_addr (ml_alfid m) = 8 * na -> al_size (ml_alfid m) = 8 * ns ->
  (0 <= ml_addr m < 256 ^ na /\ 0 <= ml_size m < 256 ^ ns ->
     memloc_wire m = inr ((16 * ns + na) :: be_enc (Z.to_nat na) (ml_addr m) ++ be_enc (Z.to_nat ns) (ml_size m))) /\
  (~ (0 <= ml_addr m < 256 ^ na /\ 0 <= ml_size m < 256 ^ ns) -> memloc_wire m = inl EValue).
Proof. exact memloc_wire_spec. Qed.
Print Assumptions C14_wire.

Theorem C14_decodes_back : forall n v, 0 <= v < 256 ^ Z.of_nat n ->
  be_dec (be_enc n v) = v /\ List.length (be_enc n v) = n /\ wf_bytes (be_enc n v).
Proof. intros n v H. split; [apply be_dec_enc; exact H|]. split; [apply be_enc_length|apply be_enc_wf]. Qed.
Print Assumptions C14_decodes_back.

(* the server's echo of WriteMemoryByAddress in the same widths (1..8 bytes each) decodes to the same numbers *)
Theorem C14_echo : forall cfg addr size af sf m na ns r extra,
  client_memloc cfg addr size af sf = inr m ->
  1 <= na <= 8 -> 1 <= ns <= 8 ->
  al_addr (ml_alfid m) = 8 * na -> al_size (ml_alfid m) = 8 * ns ->
  ml_addr m = addr -> ml_size m = size ->
  0 <= addr < 256 ^ na -> 0 <= size < 256 ^ ns ->
  p_data r = (16 * ns + na) :: be_enc (Z.to_nat na) addr ++ be_enc (Z.to_nat ns) size ++ extra ->
  wmba_interpret cfg addr size af sf r = inr [16 * ns + na; addr; size].
Proof. exact wmba_echo. Qed.
Print Assumptions C14_echo.

(* formats other than 8, 16 .. 64 are refused *)
Theorem C14_formats : forall af sf, ~ valid_format af \/ ~ valid_format sf -> mk_alfid af sf = inl EValue.
Proof. exact mk_alfid_bad. Qed.
Print Assumptions C14_formats.

(* ---- the code is the model (regenerated each run): the decision trees tools/symtrans.py obtains by executing the functions of
   udsoncan/common/MemoryLocation.py and AddressAndLengthFormatIdentifier.py on symbolic arguments are the model's functions ---- *)
From UDS Require Import Gen.Fn_MemLoc Proofs.Tie_memloc.

Theorem C14_code_autosize_address : forall v, fn_autosize_address v = autosize v.
Proof. exact tie_autosize_address. Qed.
Print Assumptions C14_code_autosize_address.
Theorem C14_code_autosize_memorysize : forall v, fn_autosize_memorysize v = autosize v.
Proof. exact tie_autosize_memorysize. Qed.
Print Assumptions C14_code_autosize_memorysize.
(* MemoryLocation(a, s, af, sf) then set_format_if_none(ca, cs): explicit format, else configured, else automatic *)
Theorem C14_code_formats : forall a s af sf ca cs,
  fn_memloc_formats a s af sf ca cs = (m <- mk_memloc a s af sf ;; m2 <- set_format_if_none m ca cs ;; ret (obs_formats m2)).
Proof. exact tie_memloc_formats. Qed.
Print Assumptions C14_code_formats.
Theorem C14_code_alfid_byte : forall af sf, fn_alfid_byte af sf = (al <- mk_alfid af sf ;; alfid_byte al).
Proof. exact tie_alfid_byte. Qed.
Print Assumptions C14_code_alfid_byte.
Theorem C14_code_address_bytes : forall a af,
  fn_addr_bytes a af = (al <- mk_alfid af 8 ;; addr_bytes {| ml_addr := a; ml_size := 0; ml_af := Some af; ml_sf := Some 8; ml_alfid := al |}).
Proof. exact tie_addr_bytes. Qed.
Print Assumptions C14_code_address_bytes.
Theorem C14_code_memorysize_bytes : forall s sf,
  fn_size_bytes s sf = (al <- mk_alfid 8 sf ;; size_bytes {| ml_addr := 0; ml_size := s; ml_af := Some 8; ml_sf := Some sf; ml_alfid := al |}).
Proof. exact tie_size_bytes. Qed.
Print Assumptions C14_code_memorysize_bytes.

(* ---- the code is the model: the client methods apply the configured server formats to the caller's MemoryLocation (Gen/Fn_ClientFormats.v) ---- *)
From UDS Require Import Gen.Fn_ClientFormats Proofs.Tie_client_formats.
Theorem C14_code_client_formats_read : forall a s af sf ca cs,
  fn_client_formats_read a s af sf ca cs = (m <- mk_memloc a s af sf ;; m2 <- apply_server_formats m ca cs ;; ret (Tie_client_formats.obs_formats m2)).
Proof. exact tie_client_formats_read. Qed.
Print Assumptions C14_code_client_formats_read.
Theorem C14_code_client_formats_write : forall a s af sf ca cs,
  fn_client_formats_write a s af sf ca cs = (m <- mk_memloc a s af sf ;; m2 <- apply_server_formats m ca cs ;; ret (Tie_client_formats.obs_formats m2)).
Proof. exact tie_client_formats_write. Qed.
Print Assumptions C14_code_client_formats_write.
Theorem C14_code_client_formats_download : forall a s af sf ca cs,
  fn_client_formats_download a s af sf ca cs = (m <- mk_memloc a s af sf ;; m2 <- apply_server_formats m ca cs ;; ret (Tie_client_formats.obs_formats m2)).
Proof. exact tie_client_formats_download. Qed.
Print Assumptions C14_code_client_formats_download.

(* ---- the code is the rule: a composite definition by memory address announces the first entry's format byte and every other entry must
   have the same one (DynamicDidDefinition.add / get_alfid executed with symbolic formats, Gen/Fn_Composite.v) ---- *)
From UDS Require Import Gen.Fn_Composite Proofs.Tie_composite.
Theorem C14_code_composite_two_entries : forall af1 sf1 af2 sf2,
  fn_composite_alfid2 af1 sf1 af2 sf2 =
  (a1 <- format_byte af1 sf1 ;; a2 <- format_byte af2 sf2 ;; if a1 =? a2 then ret a1 else fail EValue).
Proof. exact tie_composite_alfid2. Qed.
Print Assumptions C14_code_composite_two_entries.
Theorem C14_code_composite_three_entries : forall af1 sf1 af2 sf2 af3 sf3,
  fn_composite_alfid3 af1 sf1 af2 sf2 af3 sf3 =
  (a1 <- format_byte af1 sf1 ;; a2 <- format_byte af2 sf2 ;; a3 <- format_byte af3 sf3 ;;
   if (a1 =? a2) && (a1 =? a3) then ret a1 else fail EValue).
Proof. exact tie_composite_alfid3. Qed.
Print Assumptions C14_code_composite_three_entries.

(* ---- the code is the model: write_memory_by_address with explicit formats and the server's echo (tools/symtrans.py, Gen/Fn_MemoryEcho.v) ---- *)
From UDS Require Import Gen.Fn_MemoryEcho Model.Svc_Memory Proofs.Tie_simple_common Proofs.Tie_memory_echo.
Theorem C14_code_write_memory_request_16_8 : forall cfg a s data, no_server_formats cfg ->
  fn_write_memory_request_16_8 a s data = payload_of (wmba_make cfg a s (Some 16) (Some 8) data).
Proof. exact tie_write_memory_request_16_8. Qed.
Print Assumptions C14_code_write_memory_request_16_8.
Theorem C14_code_write_memory_echo_16_8 : forall cfg a s data d r p, no_server_formats cfg ->
  fn_write_memory_request_16_8 a s data = inr p -> d <> [] -> (List.length d < 6)%nat -> p_data r = d ->
  fn_write_memory_interpret_16_8 a s data d = wmba_interpret cfg a s (Some 16) (Some 8) r.
Proof. exact tie_write_memory_interpret_16_8. Qed.
Print Assumptions C14_code_write_memory_echo_16_8.
Theorem C14_code_write_memory_request_64_64 : forall cfg a s data, no_server_formats cfg ->
  fn_write_memory_request_64_64 a s data = payload_of (wmba_make cfg a s (Some 64) (Some 64) data).
Proof. exact tie_write_memory_request_64_64. Qed.
Print Assumptions C14_code_write_memory_request_64_64.
Theorem C14_code_write_memory_echo_64_64 : forall cfg a s data d r p, no_server_formats cfg ->
  fn_write_memory_request_64_64 a s data = inr p -> (17 <= List.length d < 19)%nat -> p_data r = d ->
  fn_write_memory_interpret_64_64 a s data d = wmba_interpret cfg a s (Some 64) (Some 64) r.
Proof. exact tie_write_memory_interpret_64_64. Qed.
Print Assumptions C14_code_write_memory_echo_64_64.
