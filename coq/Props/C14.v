(* C14 - memory address/size widths: explicit, else configured, else smallest; lossless.  Statements only. *)
From Coq Require Import ZArith List Bool String.
From UDS Require Import Lib.Bytes Lib.ErrM Lib.PyOps Gen.Maps Model.Message Model.Client Model.Helpers Model.MemLoc
  Model.Svc_Memory Proofs.Bytes_lemmas Proofs.C14_lemmas.
Import ListNotations.
Open Scope Z_scope.

(* precedence, for every address and size 0 .. 2^64-1, every explicit and every configured format: the widths of
   the location the client transmits are the caller's explicit format, else the configured server format, else the
   smallest whole number of bytes (at least one) holding the value; they are formats of 1..8 bytes *)
Theorem C14_precedence : forall cfg addr size af sf m,
  0 <= addr < 2 ^ 64 -> 0 <= size < 2 ^ 64 ->
  client_memloc cfg addr size af sf = inr m ->
  ml_addr m = addr /\ ml_size m = size /\
  al_addr (ml_alfid m) = chosen_format af (srv_addr cfg) addr /\
  al_size (ml_alfid m) = chosen_format sf (srv_size cfg) size /\
  valid_format (al_addr (ml_alfid m)) /\ valid_format (al_size (ml_alfid m)).
Proof. exact client_memloc_precedence. Qed.
Print Assumptions C14_precedence.

(* "smallest": it holds the value and no smaller width of at least one byte does *)
Theorem C14_smallest : forall v, 0 <= v ->
  v < 256 ^ smallest_bytes v /\ (forall n, 1 <= n -> v < 256 ^ n -> smallest_bytes v <= n) /\ 1 <= smallest_bytes v.
Proof.
  intros v Hv. split; [apply smallest_holds; exact Hv|]. split; [intros n; apply smallest_minimal; exact Hv|].
  unfold smallest_bytes. apply Z.le_max_l.
Qed.
Print Assumptions C14_smallest.

Theorem C14_autosize : forall v, 0 <= v ->
  (v < 2 ^ 64 -> autosize v = inr (8 * smallest_bytes v) /\ 1 <= smallest_bytes v <= 8) /\
  (2 ^ 64 <= v -> autosize v = inl EValue).
Proof. exact autosize_spec. Qed.
Print Assumptions C14_autosize.

(* announced = transmitted, and lossless: the format byte is 16 x (size bytes) + (address bytes); the address and
   the size follow big-endian in exactly those widths and decode back; a value that does not fit its width (or is
   negative) is refused instead of being cut *)
Theorem C14_wire : forall m na ns,
  1 <= na <= 8 -> 1 <= ns <= 8 ->
  al_addr (ml_alfid m) = 8 * na -> al_size (ml_alfid m) = 8 * ns ->
  (0 <= ml_addr m < 256 ^ na /\ 0 <= ml_size m < 256 ^ ns ->
     memloc_wire m = inr ((16 * ns + na) :: be_enc (Z.to_nat na) (ml_addr m) ++ be_enc (Z.to_nat ns) (ml_size m))) /\
  (~ (0 <= ml_addr m < 256 ^ na /\ 0 <= ml_size m < 256 ^ ns) -> memloc_wire m = inl EValue).
Proof. exact memloc_wire_spec. Qed.
Print Assumptions C14_wire.

Theorem C14_decodes_back : forall n v, 0 <= v < 256 ^ Z.of_nat n ->
  be_dec (be_enc n v) = v /\ List.length (be_enc n v) = n /\ wf_bytes (be_enc n v).
Proof. intros n v H. split; [apply be_dec_enc; exact H|]. split; [apply be_enc_length|apply be_enc_wf]. Qed.
Print Assumptions C14_decodes_back.

(* the server's echo of WriteMemoryByAddress in the same widths (1..8 bytes each) decodes to the same numbers *)
Theorem C14_echo : forall cfg addr size af sf m na ns r extra,
  client_memloc cfg addr size af sf = inr m ->
  1 <= na <= 8 -> 1 <= ns <= 8 ->
  al_addr (ml_alfid m) = 8 * na -> al_size (ml_alfid m) = 8 * ns ->
  ml_addr m = addr -> ml_size m = size ->
  0 <= addr < 256 ^ na -> 0 <= size < 256 ^ ns ->
  p_data r = (16 * ns + na) :: be_enc (Z.to_nat na) addr ++ be_enc (Z.to_nat ns) size ++ extra ->
  wmba_interpret cfg addr size af sf r = inr [16 * ns + na; addr; size].
Proof. exact wmba_echo. Qed.
Print Assumptions C14_echo.

(* formats other than 8, 16 .. 64 are refused *)
Theorem C14_formats : forall af sf, ~ valid_format af \/ ~ valid_format sf -> mk_alfid af sf = inl EValue.
Proof. exact mk_alfid_bad. Qed.
Print Assumptions C14_formats.
