(* Model of udsoncan/common/MemoryLocation.py (address / size / formats / ALFID) *)
From Coq Require Import ZArith List Bool String.
From UDS Require Import Lib.Bytes Lib.ErrM Lib.PyOps Gen.Maps Model.Helpers.
Import ListNotations.
Open Scope Z_scope.
Open Scope list_scope.

Record memloc := { ml_addr : Z; ml_size : Z; ml_af : option Z; ml_sf : option Z; ml_alfid : alfid }.

(* int.bit_length() *)
Definition bit_length (v : Z) : Z := if v =? 0 then 0 else Z.log2 (Z.abs v) + 1.

(* autosize_address / autosize_memorysize: smallest whole number of bytes, at least one, at most 64 bits *)
Definition autosize (v : Z) : M Z :=
  let fmt := Z.max 1 ((bit_length v + 7) / 8) * 8 in
  if 64 <? fmt then fail EValue else ret fmt.

Definition resolve_alfid (addr size : Z) (af sf : option Z) : M alfid :=
  a <- match af with Some x => ret x | None => autosize addr end ;;
  s <- match sf with Some x => ret x | None => autosize size end ;;
  mk_alfid a s.

(* MemoryLocation(address, memorysize, address_format, memorysize_format) *)
Definition mk_memloc (addr size : Z) (af sf : option Z) : M memloc :=
  al <- resolve_alfid addr size af sf ;;
  ret {| ml_addr := addr; ml_size := size; ml_af := af; ml_sf := sf; ml_alfid := al |}.

(* set_format_if_none(address_format=a, memorysize_format=s); on error the object is left as it was *)
Definition set_format_if_none (m : memloc) (a s : option Z) : M memloc :=
  let af := match a with Some x => (match ml_af m with None => Some x | o => o end) | None => ml_af m end in
  let sf := match s with Some x => (match ml_sf m with None => Some x | o => o end) | None => ml_sf m end in
  al <- resolve_alfid (ml_addr m) (ml_size m) af sf ;;
  ret {| ml_addr := ml_addr m; ml_size := ml_size m; ml_af := af; ml_sf := sf; ml_alfid := al |}.

Definition nbytes (m : list (Z * Z)) (fmt : Z) : M nat :=
  match map_get m fmt with Some n => ret (Z.to_nat n) | None => fail EKey end.

(* get_address_bytes / get_memorysize_bytes: big-endian unsigned in the announced width; a value that does
   not fit (or is negative) is refused *)
Definition fit_bytes (n : nat) (v : Z) : M bytes :=
  if (v <? 0) || (256 ^ Z.of_nat n <=? v) then fail EValue else ret (be_enc n v).
Definition addr_bytes (m : memloc) : M bytes :=
  n <- nbytes gen_alfid_address_map (al_addr (ml_alfid m)) ;; fit_bytes n (ml_addr m).
Definition size_bytes (m : memloc) : M bytes :=
  n <- nbytes gen_alfid_memsize_map (al_size (ml_alfid m)) ;; fit_bytes n (ml_size m).

(* alfid byte ++ address ++ size, as every memory-addressed request transmits them *)
Definition memloc_wire (m : memloc) : M bytes :=
  b <- alfid_byte (ml_alfid m) ;; bb <- pack_B b ;;
  a <- addr_bytes m ;; s <- size_bytes m ;; ret (bb ++ a ++ s).

(* what the client does first: apply the configured server formats where the caller gave none *)
Definition apply_server_formats (m : memloc) (sa ss : option Z) : M memloc :=
  m1 <- set_format_if_none m sa None ;; set_format_if_none m1 None ss.
