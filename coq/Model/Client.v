(* Model of udsoncan/client.py: configuration, the two context managers, send_request (wait loop over
   a reply schedule with virtual time), the standard_error_management decorator.
   Time is Z microseconds.  No proofs here. *)
From Coq Require Import ZArith List Bool String.
From UDS Require Import Lib.Bytes Lib.ErrM Lib.PyOps Model.Message.
Import ListNotations.
Open Scope Z_scope.
Open Scope list_scope.

(* ---- configuration and mutable client state --------------------------------------------------- *)
Record config := {
  ex_neg : bool; ex_inv : bool; ex_unx : bool;           (* exception_on_*_response *)
  tol_pad : bool; ign_zero : bool; use_srv : bool;        (* tolerate_zero_padding, ignore_all_zero_dtc, use_server_timing *)
  std : Z;                                                 (* standard_version *)
  req_to : option Z; p2 : Z; p2s : Z;                      (* request_timeout, p2_timeout, p2_star_timeout (us) *)
  has_cb : bool;                                           (* nrc78_callback configured *)
  srv_addr : option Z; srv_size : option Z;                (* server_address_format / server_memorysize_format *)
  snap_did : Z; ext_size : option Z;                       (* dtc_snapshot_did_size, extended_data_size (int form) *)
  algo : Z; algo_prm : Z;                                  (* security_algo flavour (Services.v), security_algo_params (-1 = None) *)
  dids : list (Z * Z);        (* data_identifiers: (did | -1 for 'default', codec length | -1 for read-all-remaining) *)
  ios : list (Z * (Z * bool * list Z * option Z))   (* input_output: did | -1 -> (codec length, has mask dict, mask values m0.., mask_size) *)
}.

(* the part of the configuration the response parsers need (kept apart so that their loops do not carry the
   whole configuration) *)
Record pcfg := { pc_tol : bool; pc_ign : bool; pc_snap : Z; pc_dids : list (Z * Z) }.
Definition pc_of (cfg : config) : pcfg :=
  {| pc_tol := tol_pad cfg; pc_ign := ign_zero cfg; pc_snap := snap_did cfg; pc_dids := dids cfg |}.

Inductive override := OvOff | OvConst (b : bytes) | OvFun (pre post : bytes).

Record cstate := {
  st_p2 : option Z; st_p2s : option Z;   (* session_timing *)
  spr_on : bool; spr_wait : option bool; (* suppress_positive_response.enabled / .wait_nrc (None after an exit) *)
  ov : override                          (* payload_override *)
}.

Definition st_init : cstate :=
  {| st_p2 := None; st_p2s := None; spr_on := false; spr_wait := Some false; ov := OvOff |}.

(* suppress_positive_response(wait_nrc=w) / __enter__ / __exit__ *)
Definition spr_call (st : cstate) (w : bool) : cstate :=
  {| st_p2 := st_p2 st; st_p2s := st_p2s st; spr_on := spr_on st; spr_wait := Some w; ov := ov st |}.
Definition spr_enter (st : cstate) : cstate :=
  {| st_p2 := st_p2 st; st_p2s := st_p2s st; spr_on := true; spr_wait := spr_wait st; ov := ov st |}.
Definition spr_exit (st : cstate) : cstate :=
  {| st_p2 := st_p2 st; st_p2s := st_p2s st; spr_on := false; spr_wait := None; ov := ov st |}.
Definition ov_enter (st : cstate) (o : override) : cstate :=
  {| st_p2 := st_p2 st; st_p2s := st_p2s st; spr_on := spr_on st; spr_wait := spr_wait st; ov := o |}.
Definition ov_exit (st : cstate) : cstate := ov_enter st OvOff.
Definition set_timing (st : cstate) (a b : Z) : cstate :=
  {| st_p2 := Some a; st_p2s := Some b; spr_on := spr_on st; spr_wait := spr_wait st; ov := ov st |}.

(* ---- the connection as seen by the client ------------------------------------------------------- *)
Inductive item := Frame (f : bytes) | Fault.
Definition sched := list (Z * item).   (* (absolute arrival time, item), non-decreasing *)

(* timeout kinds reported in the TimeoutException message *)
Inductive tkind := TP2 | TP2Star | TGlobal.
Definition tkind_code (k : tkind) : Z := match k with TP2 => 1 | TP2Star => 2 | TGlobal => 3 end.

Inductive ev :=
  | EvF                       (* empty_rxqueue *)
  | EvS (p : bytes)           (* send *)
  | EvW (w now : Z)           (* wait_frame(timeout = w) called at virtual time now *)
  | EvCB                      (* nrc78_callback() *)
  | EvALGO (seed : bytes) (lvl : Z) (prm : Z)   (* security_algo called; lvl / prm = -1 when not passed *)
  | EvTO (k : tkind).         (* TimeoutException raised with this kind *)

(* outcome of an (undecorated) client function *)
Inductive cres (A : Type) :=
  | COk (a : A)
  | CErr (e : err) (r : option resp).   (* exception, with e.response for the three response exceptions *)
Arguments COk {A} a.
Arguments CErr {A} e r.

(* empty_rxqueue: whatever has arrived by now is discarded *)
Fixpoint flush (now : Z) (s : sched) : sched :=
  match s with
  | (a, it) :: rest => if a <=? now then flush now rest else s
  | [] => []
  end.

Definition apply_override (o : override) (p : bytes) : bytes :=
  match o with OvOff => p | OvConst b => b | OvFun pre post => pre ++ p ++ post end.

Definition wait_len (single : Z) (deadline : option Z) (now : Z) : bool * Z :=
  match deadline with
  | None => (true, single)
  | Some d => if now + single <? d then (true, single) else (false, Z.max (d - now) 0)
  end.

(* the receive loop of send_request; structurally recursive on the schedule *)
Fixpoint wait_loop (cfg : config) (p2star : Z) (rsid : Z) (spr_used : bool) (deadline : option Z)
         (single : Z) (star : bool) (now : Z) (s : sched)
  : cres (option resp) * Z * sched * list ev :=
  let '(is_single, w) := wait_len single deadline now in
  let timed_out (s' : sched) :=
    if spr_used then (COk None, now + w, s', [EvW w now])
    else (CErr ETimeout None, now + w, s',
          [EvW w now; EvTO (if is_single then (if star then TP2Star else TP2) else TGlobal)]) in
  match s with
  | [] => timed_out []
  | (a, it) :: rest =>
    if a <=? now + w then
      let now' := Z.max now a in
      match it with
      | Fault => (CErr ERuntime None, now', rest, [EvW w now])
      | Frame f =>
        let r := parse_response f in
        if negb (p_valid r) then (CErr EInvalid (Some r), now', rest, [EvW w now])
        else
          match p_svc r, p_code r with
          | Some rs, Some code =>
            if negb (s_sid rs + 64 =? rsid) then (CErr EUnexpected (Some r), now', rest, [EvW w now])
            else if negb (p_positive r) then
              if code =? 120 then
                let '(res, t, s', tr) :=
                  wait_loop cfg p2star rsid spr_used deadline (if star then single else p2star) true now' rest in
                (res, t, s', EvW w now :: (if has_cb cfg then [EvCB] else []) ++ tr)
              else (CErr ENegative (Some r), now', rest, [EvW w now])
            else
              if spr_used then (COk None, now', rest, [EvW w now])
              else (COk (Some r), now', rest, [EvW w now])
          | _, _ => (CErr EAssert (Some r), now', rest, [EvW w now])
          end
      end
    else timed_out s
  end.

(* Client.send_request(request, timeout); timeout < 0 means "not given" *)
Definition send_request (cfg : config) (st : cstate) (r : req) (timeout : Z) (now : Z) (s : sched)
  : cres (option resp) * Z * sched * list ev :=
  match q_svc r with
  | None => (CErr EValue None, now, s, [])
  | Some sv =>
    let p2v := match st_p2 st with Some v => v | None => p2 cfg end in
    let '(overall, single) :=
      if timeout <? 0 then
        (req_to cfg, match req_to cfg with Some o => Z.min o p2v | None => p2v end)
      else (Some timeout, timeout) in
    let s1 := flush now s in
    let ovspr := spr_on st && s_sub sv in
    match request_payload r (if ovspr then Some true else None) with
    | inl e => (CErr e None, now, s1, [EvF])
    | inr payload0 =>
      let payload := apply_override (ov st) payload0 in
      let spr_used := q_spr r || ovspr in
      let wait_nrc := spr_on st && match spr_wait st with Some true => true | _ => false end in
      if spr_used && negb wait_nrc then (COk None, now, s1, [EvF; EvS payload])
      else
        let deadline := match overall with Some o => Some (now + o) | None => None end in
        let p2star := match st_p2s st with Some v => v | None => p2s cfg end in
        let '(res, t, s', tr) := wait_loop cfg p2star (s_sid sv + 64) spr_used deadline single false now s1 in
        (res, t, s', EvF :: EvS payload :: tr)
    end
  end.

(* ---- standard_error_management ------------------------------------------------------------------- *)
(* what the caller of a decorated method observes *)
Inductive outcome (A : Type) :=
  | ORet (a : A)                              (* normal return of the inner function *)
  | ORetResp (r : resp)                       (* e.response returned because the switch is off *)
  | ORaise (e : err) (r : option resp).       (* exception propagated *)
Arguments ORet {A} a.
Arguments ORetResp {A} r.
Arguments ORaise {A} e r.

Definition set_flags (r : resp) (pos val unx : option bool) : resp :=
  {| p_svc := p_svc r; p_code := p_code r; p_name := p_name r;
     p_positive := match pos with Some b => b | None => p_positive r end;
     p_valid := match val with Some b => b | None => p_valid r end;
     p_reason := p_reason r;
     p_unexpected := match unx with Some b => b | None => p_unexpected r end;
     p_data := p_data r; p_orig := p_orig r |}.

Definition deliver {A} (cfg : config) (inner : cres A) : outcome A :=
  match inner with
  | COk a => ORet a
  | CErr ENegative (Some r) =>
    let r' := set_flags r (Some false) None None in
    if ex_neg cfg then ORaise ENegative (Some r') else ORetResp r'
  | CErr EInvalid (Some r) =>
    let r' := set_flags r None (Some false) None in
    if ex_inv cfg then ORaise EInvalid (Some r') else ORetResp r'
  | CErr EUnexpected (Some r) =>
    let r' := set_flags r None None (Some true) in
    if ex_unx cfg then ORaise EUnexpected (Some r') else ORetResp r'
  | CErr e r => ORaise e r
  end.

(* ---- canonical rendering -------------------------------------------------------------------------- *)
Definition enc_ev (e : ev) : list Z :=
  match e with
  | EvF => [1]
  | EvS p => 2 :: enc_bytes p
  | EvW w now => [3; w; now]
  | EvCB => [4]
  | EvALGO seed lvl prm => 5 :: lvl :: prm :: enc_bytes seed
  | EvTO k => [6; tkind_code k]
  end.
Definition enc_trace (t : list ev) : list Z := enc_list enc_ev t.

(* a response as the caller sees it: original payload + the three flags + code *)
Definition enc_resp_obs (r : resp) : list Z :=
  enc_opt enc_bytes (p_orig r) ++ [enc_bool (p_positive r); enc_bool (p_valid r); enc_bool (p_unexpected r);
                                   match p_code r with Some c => c | None => -1 end].

Definition enc_outcome {A} (f : A -> list Z) (o : outcome A) : list Z :=
  match o with
  | ORet a => 0 :: f a
  | ORetResp r => 1 :: enc_resp_obs r
  | ORaise e r => 2 :: err_code e :: enc_opt enc_resp_obs r
  end.

Definition enc_state (st : cstate) : list Z :=
  [match st_p2 st with Some v => v | None => -1 end; match st_p2s st with Some v => v | None => -1 end;
   enc_bool (spr_on st); match spr_wait st with Some false => 0 | Some true => 1 | None => 2 end;
   match ov st with OvOff => 0 | OvConst _ => 1 | OvFun _ _ => 2 end].
