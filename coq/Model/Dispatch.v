From Coq Require Import ZArith List Bool.
From UDS Require Import Lib.Bytes Model.Entry.
Import ListNotations.
Open Scope Z_scope.

Definition run_case (e : Z) (a : list Z) (b : list bytes) : list Z :=
  if (1700 <=? e) && (e <? 1800) then entry_message e a b
  else [-999].
