From Coq Require Import ZArith List Bool.
From UDS Require Import Lib.Bytes Lib.ErrM Model.Message Model.Client Model.Entry Model.Names Model.Helpers Model.Svc_Simple Model.History Model.Ecu Model.Conn.
Import ListNotations.
Open Scope Z_scope.

Definition run_case (e : Z) (a : list Z) (b : list bytes) : list Z :=
  if (1700 <=? e) && (e <? 1800) then entry_message e a b
  else if (2000 <=? e) && (e <? 2100) then entry_names e a
  else if e =? 1911 then
    (* services.LinkControl.make_request(control_type, Baudrate(rate, type)) called directly: the payload of the request built *)
    enc_M enc_bytes (bind (bind (if nth 1 a 0 =? 1 then bind (mk_baud (nth 2 a 0) (nth 3 a 0)) (fun x => ret (Some x)) else ret None) (lc_make (nth 0 a 0)))
                          (fun rq => request_payload rq None))
  else if (1900 <=? e) && (e <? 2000) then entry_helpers e a
  else if e =? 5000 then entry_history a b
  else if (1600 <=? e) && (e <? 1610) then entry_conn e a b
  else if (1200 <=? e) && (e <? 1210) then entry_ecu e a b
  else if e =? 5018 then (let v := nth 0 a 0 in if (v =? 2006) || (v =? 2013) || (v =? 2020) then [0] else [2; 2])
  else if e =? 5015 then [1; 1; 1; 0]  (* Client.__enter__/__exit__: open once, close once on every exit path *)
  else if e =? 5016 then [0]           (* a client on the real QueueConnection with stale frames queued: behaves as a fresh client (no problem found) *)
  else [-999].
