(* Interleaving model of udsoncan.connections.SocketConnection (receiver thread + consumer + peer) at the granularity
   the code synchronises on, and of QueueConnection.  A step is either one operation of the receiver thread
   (select / recv / queue.put, each followed by the thread's own loop test), one consumer call, or one peer action. *)
From Coq Require Import ZArith List Bool String.
From UDS Require Import Lib.Bytes Lib.ErrM.
Import ListNotations.
Open Scope Z_scope.
Open Scope list_scope.

(* where the receiver thread is parked *)
Inductive tstate := TNotStarted | TAtSelect | TAtRecv | TAtPut (d : bytes) | TDead.

Record conn := {
  c_opened : bool; c_exit : bool; c_thread : tstate;
  c_sockbuf : list bytes;      (* frames the peer has sent that the thread has not read yet (message-preserving socket) *)
  c_peer_closed : bool;
  c_dgram : bool;              (* SOCK_DGRAM: an empty read is an empty datagram, not a disconnect *)
  c_queue : list bytes;        (* rxqueue *)
  c_delivered : list bytes;    (* what wait_frame has returned so far *)
  c_sent : list bytes          (* ghost: everything the peer sent *)
}.

Definition conn0 (dgram : bool) : conn :=
  {| c_opened := false; c_exit := false; c_thread := TNotStarted; c_sockbuf := []; c_peer_closed := false; c_dgram := dgram;
     c_queue := []; c_delivered := []; c_sent := [] |}.

Inductive cstep :=
  | SOpen                 (* conn.open(): flag cleared, thread started (it parks at its first select) *)
  | SPeerSend (f : bytes)
  | SPeerClose
  | SThread               (* let the receiver thread perform the operation it is parked at *)
  | SGet                  (* wait_frame(timeout = 0, exception = True) *)
  | SClose.               (* conn.close(): set the flag, join the thread, mark closed *)

Definition upd (c : conn) (opened ex : bool) (th : tstate) (sb : list bytes) (pc : bool) (q dl snt : list bytes) : conn :=
  {| c_opened := opened; c_exit := ex; c_thread := th; c_sockbuf := sb; c_peer_closed := pc; c_dgram := c_dgram c;
     c_queue := q; c_delivered := dl; c_sent := snt |}.

(* the thread's loop test after an operation *)
Definition loop_test (ex : bool) : tstate := if ex then TDead else TAtSelect.

(* one operation of the receiver thread *)
Definition thread_step (c : conn) : conn :=
  match c_thread c with
  | TAtSelect =>
    (* select(timeout=0.2): readable when a frame is buffered or the peer has closed; otherwise a timeout and the loop test *)
    if negb (Nat.eqb (List.length (c_sockbuf c)) 0) || c_peer_closed c
    then upd c (c_opened c) (c_exit c) TAtRecv (c_sockbuf c) (c_peer_closed c) (c_queue c) (c_delivered c) (c_sent c)
    else upd c (c_opened c) (c_exit c) (loop_test (c_exit c)) (c_sockbuf c) (c_peer_closed c) (c_queue c) (c_delivered c) (c_sent c)
  | TAtRecv =>
    match c_sockbuf c with
    | f :: rest => upd c (c_opened c) (c_exit c) (TAtPut f) rest (c_peer_closed c) (c_queue c) (c_delivered c) (c_sent c)
    | [] =>
      (* nothing buffered: only possible after the peer closed; the read returns b'' *)
      if c_dgram c then upd c (c_opened c) (c_exit c) (TAtPut []) [] (c_peer_closed c) (c_queue c) (c_delivered c) (c_sent c)
      else upd c (c_opened c) (c_exit c) TDead [] (c_peer_closed c) (c_queue c) (c_delivered c) (c_sent c)
    end
  | TAtPut d => upd c (c_opened c) (c_exit c) (loop_test (c_exit c)) (c_sockbuf c) (c_peer_closed c) (c_queue c ++ [d]) (c_delivered c) (c_sent c)
  | _ => c
  end.

(* close() joins the thread: it runs until it is dead; from any parked state that takes at most three operations once
   the flag is set (put -> dead; recv -> put -> dead; select -> (recv -> put ->) dead) *)
Fixpoint run_until_dead (fuel : nat) (c : conn) : conn :=
  match fuel with
  | O => c
  | S k => match c_thread c with TDead | TNotStarted => c | _ => run_until_dead k (thread_step c) end
  end.

Inductive cout := ONone | OFrame (f : bytes) | OTimeout | ORaises.

Definition conn_step (c : conn) (s : cstep) : conn * cout :=
  match s with
  | SOpen =>
    match c_thread c with
    | TNotStarted | TDead => (upd c true false TAtSelect (c_sockbuf c) (c_peer_closed c) (c_queue c) (c_delivered c) (c_sent c), ONone)
    | _ => (c, ONone)     (* open() while the thread runs is outside the model: ignored by the harness as well *)
    end
  | SPeerSend f =>
    if c_peer_closed c then (c, ONone)
    else (upd c (c_opened c) (c_exit c) (c_thread c) (c_sockbuf c ++ [f]) false (c_queue c) (c_delivered c) (c_sent c ++ [f]), ONone)
  | SPeerClose => (upd c (c_opened c) (c_exit c) (c_thread c) (c_sockbuf c) true (c_queue c) (c_delivered c) (c_sent c), ONone)
  | SThread => (thread_step c, ONone)
  | SGet =>
    if negb (c_opened c) then (c, ORaises)
    else match c_queue c with
         | f :: rest => (upd c (c_opened c) (c_exit c) (c_thread c) (c_sockbuf c) (c_peer_closed c) rest (c_delivered c ++ [f]) (c_sent c), OFrame f)
         | [] => (c, OTimeout)
         end
  | SClose =>
    let c1 := upd c (c_opened c) true (c_thread c) (c_sockbuf c) (c_peer_closed c) (c_queue c) (c_delivered c) (c_sent c) in
    let c2 := run_until_dead 4 c1 in
    (upd c2 false true (c_thread c2) (c_sockbuf c2) (c_peer_closed c2) (c_queue c2) (c_delivered c2) (c_sent c2), ONone)
  end.

Definition inflight (c : conn) : list bytes := match c_thread c with TAtPut d => [d] | _ => [] end.

Fixpoint conn_run (c : conn) (steps : list cstep) : conn * list cout :=
  match steps with
  | [] => (c, [])
  | s :: rest => let '(c1, o) := conn_step c s in let '(c2, os) := conn_run c1 rest in (c2, o :: os)
  end.

(* ---- QueueConnection: two FIFOs, frames truncated to the MTU in both directions ------------------------------------- *)
Definition truncate (mtu : Z) (f : bytes) : bytes := if mtu <? 0 then f else firstn (Z.to_nat mtu) f.
Record qconn := { q_opened : bool; q_mtu : Z; q_from : list bytes; q_to : list bytes }.
Inductive qstep := QOpen | QClose | QUserPut (f : bytes) | QWait | QSend (f : bytes).
Definition qconn_step (c : qconn) (s : qstep) : qconn * cout :=
  match s with
  | QOpen => ({| q_opened := true; q_mtu := q_mtu c; q_from := q_from c; q_to := q_to c |}, ONone)
  | QClose => ({| q_opened := false; q_mtu := q_mtu c; q_from := []; q_to := [] |}, ONone)
  | QUserPut f => ({| q_opened := q_opened c; q_mtu := q_mtu c; q_from := q_from c ++ [f]; q_to := q_to c |}, ONone)
  | QWait =>
    if negb (q_opened c) then (c, ORaises)
    else match q_from c with
         | f :: rest => ({| q_opened := true; q_mtu := q_mtu c; q_from := rest; q_to := q_to c |}, OFrame (truncate (q_mtu c) f))
         | [] => (c, OTimeout)
         end
  | QSend f =>
    if negb (q_opened c) then (c, ORaises)
    else ({| q_opened := true; q_mtu := q_mtu c; q_from := q_from c; q_to := q_to c ++ [truncate (q_mtu c) f] |}, ONone)
  end.

(* ---- BaseConnection.send(payload): refused when closed; otherwise the payload is handed to specific_send exactly once and
   whatever specific_send raises (after it has written the frame) goes to the caller: no second attempt ---------------- *)
Definition base_send (opened : bool) (payload : bytes) (fault : Z) : list bytes * Z :=
  if negb opened then ([], 8) else ([payload], fault).

(* ---- correspondence entry points -------------------------------------------------------------------------------------- *)
Definition enc_cout (o : cout) : list Z :=
  match o with ONone => [0] | OFrame f => 1 :: enc_bytes f | OTimeout => [2] | ORaises => [3] end.
Definition enc_tstate (t : tstate) : Z :=
  match t with TNotStarted => 0 | TAtSelect => 1 | TAtRecv => 2 | TAtPut _ => 3 | TDead => 4 end.

(* ints: [dgram; nsteps; steps...] with step codes 0 open, 1 peer send (next blob), 2 peer close, 3 thread, 4 get, 5 close *)
Fixpoint decode_csteps (a : list Z) (b : list bytes) : list cstep :=
  match a with
  | [] => []
  | x :: tl =>
    if x =? 0 then SOpen :: decode_csteps tl b
    else if x =? 1 then SPeerSend (hd [] b) :: decode_csteps tl (List.tl b)
    else if x =? 2 then SPeerClose :: decode_csteps tl b
    else if x =? 3 then SThread :: decode_csteps tl b
    else if x =? 4 then SGet :: decode_csteps tl b
    else SClose :: decode_csteps tl b
  end.

Fixpoint decode_qsteps (a : list Z) (b : list bytes) : list qstep :=
  match a with
  | [] => []
  | x :: tl =>
    if x =? 0 then QOpen :: decode_qsteps tl b
    else if x =? 1 then QUserPut (hd [] b) :: decode_qsteps tl (List.tl b)
    else if x =? 2 then QClose :: decode_qsteps tl b
    else if x =? 4 then QWait :: decode_qsteps tl b
    else QSend (hd [] b) :: decode_qsteps tl (List.tl b)
  end.

Fixpoint qconn_run (c : qconn) (steps : list qstep) : qconn * list cout :=
  match steps with
  | [] => (c, [])
  | s :: rest => let '(c1, o) := qconn_step c s in let '(c2, os) := qconn_run c1 rest in (c2, o :: os)
  end.

Definition entry_conn (e : Z) (a : list Z) (b : list bytes) : list Z :=
  if e =? 1601 then
    let '(c, outs) := conn_run (conn0 (hd 0 a =? 1)) (decode_csteps (List.tl a) b) in
    flat_map enc_cout outs ++ [enc_tstate (c_thread c); enc_bool (c_opened c)] ++ enc_list enc_bytes (c_queue c)
  else if e =? 1602 then
    let '(c, outs) := qconn_run {| q_opened := false; q_mtu := hd 0 a; q_from := []; q_to := [] |} (decode_qsteps (List.tl a) b) in
    flat_map enc_cout outs ++ [enc_bool (q_opened c)] ++ enc_list enc_bytes (q_to c)
  else if e =? 1603 then
    let '(w, err) := base_send (hd 0 a =? 1) (hd [] b) (nth 2 a 0) in enc_list enc_bytes w ++ [err]
  else if e =? 1609 then [0]    (* real-socket measurements: zero problems expected *)
  else [-999].
