(* Model of the identifier-based services: ReadDataByIdentifier (incl. read_data_by_identifier_first and
   test_data_identifier), WriteDataByIdentifier, InputOutputControlByIdentifier.
   A codec is its length behaviour: Fixed n (n >= 0) or read-all-remaining (-1); values are the raw bytes. *)
From Coq Require Import ZArith List Bool String.
From UDS Require Import Lib.Bytes Lib.ErrM Lib.PyOps Model.Message Model.Client Model.Services Model.Svc_Simple.
Import ListNotations.
Open Scope Z_scope.
Open Scope list_scope.

Definition lookup {A} (k : Z) (l : list (Z * A)) : option A :=
  match find (fun '(x, _) => x =? k) l with Some (_, v) => Some v | None => None end.

(* fetch_codec_definition_from_config: the DID's own entry, else 'default' (-1), else ConfigError *)
Definition fetch_codec (pc : pcfg) (did : Z) : M Z :=
  match lookup did (pc_dids pc) with
  | Some sh => ret sh
  | None => match lookup (-1) (pc_dids pc) with Some sh => ret sh | None => fail EConfig end
  end.

Fixpoint iterM {A} (f : A -> M unit) (l : list A) : M unit :=
  match l with [] => ret tt | x :: tl => _ <- f x ;; iterM f tl end.

(* the read-all-remaining rule of make_request: at most one such DID and only in last position *)
Fixpoint readall_rule (pc : pcfg) (l : list Z) (seen : bool) : M unit :=
  match l with
  | [] => ret tt
  | d :: tl =>
    sh <- fetch_codec pc d ;;
    if seen then fail EValue else readall_rule pc tl (sh <? 0)
  end.

Fixpoint pack_dids (l : list Z) : M bytes :=
  match l with [] => ret [] | d :: tl => a <- pack_H d ;; b <- pack_dids tl ;; ret (a ++ b) end.

(* ReadDataByIdentifier.make_request(didlist, didconfig); use_cfg = false is didconfig=None (test_data_identifier) *)
Definition rdbi_make (cfg : config) (use_cfg : bool) (l : list Z) : M req :=
  _ <- iterM (fun d => validate_int d 0 65535) l ;;
  _ <- (if use_cfg then
          (_ <- iterM (fun d => _ <- fetch_codec (pc_of cfg) d ;; ret tt) l ;; readall_rule (pc_of cfg) l false)
        else ret tt) ;;
  d <- pack_dids l ;;
  mk_req_data "ReadDataByIdentifier" d.

(* dict semantics of response.service_data.values: a later value for the same DID replaces the earlier one *)
Fixpoint dict_set (k : Z) (v : bytes) (l : list (Z * bytes)) : list (Z * bytes) :=
  match l with
  | [] => [(k, v)]
  | (k', v') :: tl => if k' =? k then (k, v) :: tl else (k', v') :: dict_set k v tl
  end.
Fixpoint insert_sorted (kv : Z * bytes) (l : list (Z * bytes)) : list (Z * bytes) :=
  match l with
  | [] => [kv]
  | x :: tl => if fst kv <=? fst x then kv :: l else x :: insert_sorted kv tl
  end.
Definition sort_dict (l : list (Z * bytes)) : list (Z * bytes) := fold_right insert_sorted [] l.

(* the parsing loop of interpret_response; fuel = number of bytes + 1 always suffices (each round consumes >= 2) *)
Fixpoint rdbi_loop (fuel : nat) (pc : pcfg) (requested : list Z) (d : bytes) (offset : nat)
         (vals : list (Z * bytes)) : M (list (Z * bytes)) :=
  match fuel with
  | O => fail EOutOfFuel
  | S k =>
    let n := List.length d in
    if Nat.leb n offset then ret vals
    else if Nat.leb n (offset + 1) then
      if pc_tol pc && (last d 1 =? 0) then ret vals else fail EInvalid
    else
      let did := be_dec (firstn 2 (skipn offset d)) in
      let in_cfg := match lookup did (pc_dids pc) with Some _ => true | None => false end in
      if (did =? 0) && negb in_cfg && pc_tol pc && all_zero (skipn offset d) then ret vals
      else
        match fetch_codec pc did with
        | inl e => if existsb (Z.eqb did) requested then fail e else fail EUnexpected
        | inr sh =>
          let off2 := (offset + 2)%nat in
          let size := if sh <? 0 then (n - off2)%nat else Z.to_nat sh in
          if Nat.ltb n (off2 + size) then fail EInvalid
          else rdbi_loop k pc requested d (off2 + size)%nat (dict_set did (firstn size (skipn off2 d)) vals)
        end
  end.

Definition enc_values (l : list (Z * bytes)) : list Z :=
  enc_list (fun '(k, v) => k :: enc_bytes v) (sort_dict l).

Definition rdbi_interpret (cfg : config) (l : list Z) (r : resp) : M (list (Z * bytes)) :=
  let d := p_data r in
  vals <- rdbi_loop (S (List.length d)) (pc_of cfg) l d 0 [] ;;
  (* extra / missing identifiers *)
  _ <- guard (forallb (fun '(k, _) => existsb (Z.eqb k) l) vals) EUnexpected ;;
  _ <- guard (forallb (fun k => existsb (fun '(k', _) => k' =? k) vals) l) EUnexpected ;;
  ret vals.

Definition read_data_by_identifier (cfg : config) (st : cstate) (l : list Z) (now : Z) (s : sched) : fres :=
  single_request cfg st (rdbi_make cfg true l) (fun r => v <- rdbi_interpret cfg l r ;; ret (enc_values v)) no_post now s.

(* value-returning helper: marker -777 makes the renderer print a plain value instead of a response *)
Definition VALUE_MARK : Z := -777.
Definition read_data_by_identifier_first (cfg : config) (st : cstate) (l : list Z) (now : Z) (s : sched) : fres :=
  match iterM (fun d => validate_int d 0 65535) l with
  | inl e => (CErr e None, st, now, s, [])
  | inr _ =>
    let '(res, st', t, s', tr) :=
      single_request cfg st (rdbi_make cfg true l)
        (fun r => v <- rdbi_interpret cfg l r ;;
                  ret (match l with
                       | d0 :: _ => match lookup d0 v with Some x => VALUE_MARK :: enc_bytes x | None => [VALUE_MARK; -1] end
                       | [] => [VALUE_MARK; -1]
                       end)) no_post now s in
    (match res with
     | COk (Some (_, [_; -1])) => COk None      (* no value to return *)
     | x => x
     end, st', t, s', tr)
  end.

Definition test_data_identifier (cfg : config) (st : cstate) (l : list Z) (now : Z) (s : sched) : fres :=
  single_request cfg st (rdbi_make cfg false l) (fun _ => ret []) no_post now s.

(* ---- WriteDataByIdentifier ------------------------------------------------------------------------- *)
(* raw codec encode: the value must have the codec's length (any length for read-all) *)
Definition codec_encode (sh : Z) (v : bytes) : M bytes :=
  if (sh <? 0) || (Z.of_nat (List.length v) =? sh) then ret v else fail EValue.

Definition wdbi_make (cfg : config) (did : Z) (v : bytes) : M req :=
  _ <- validate_int did 0 65535 ;;
  sh <- fetch_codec (pc_of cfg) did ;;
  db <- pack_H did ;;
  e <- codec_encode sh v ;;
  mk_req_data "WriteDataByIdentifier" (db ++ e).
Definition wdbi_interpret (did : Z) (r : resp) : M sdata :=
  match p_data r with
  | d1 :: d0 :: _ => _ <- guard (d1 * 256 + d0 =? did) EUnexpected ;; ret [d1 * 256 + d0]
  | _ => fail EInvalid
  end.
Definition write_data_by_identifier (cfg : config) (st : cstate) (did : Z) (v : bytes) (now : Z) (s : sched) : fres :=
  single_request cfg st (wdbi_make cfg did v) (wdbi_interpret did) no_post now s.

(* ---- InputOutputControlByIdentifier ------------------------------------------------------------------ *)
Inductive maskarg := MNone | MBool (b : bool) | MList (l : list (Z * bool)).   (* (mask index, set?) *)

Definition io_entry := (Z * bool * list Z * option Z)%type.  (* codec length, has 'mask', mask values, mask_size *)

Definition fetch_io (cfg : config) (did : Z) : M io_entry :=
  match lookup did (ios cfg) with
  | Some e => ret e
  | None => match lookup (-1) (ios cfg) with Some e => ret e | None => fail EConfig end
  end.

(* tools.check_io_config_composite_entry *)
Definition check_io_entry (e : io_entry) : M unit :=
  let '(sh, has_mask, masks, msize) := e in
  _ <- guard (negb has_mask || forallb (fun m => 0 <=? m) masks) EValue ;;
  match msize with
  | None => ret tt
  | Some ms =>
    _ <- guard (0 <=? ms) EValue ;;
    guard (negb has_mask || forallb (fun m => m <=? 2 ^ (ms * 8) - 1) masks) EValue
  end.

Definition io_make (cfg : config) (did : Z) (cp : option Z) (values : option bytes) (masks : maskarg) : M req :=
  _ <- validate_int did 0 65535 ;;
  _ <- (match cp with Some c => validate_int c 0 3 | None => ret tt end) ;;
  _ <- (match values, masks with None, MNone => ret tt | None, _ => fail EValue | _, _ => ret tt end) ;;
  e <- fetch_io cfg did ;;
  _ <- check_io_entry e ;;
  let '(sh, has_mask, mvals, msize) := e in
  db <- pack_H did ;;
  cb <- (match cp with Some c => pack_B c | None => ret [] end) ;;
  vb <- (match values with Some v => codec_encode sh v | None => ret [] end) ;;
  mb <- (match masks with
         | MNone => ret []
         | MBool b => match msize with
                      | Some ms => ret (repeat (if b then 255 else 0) (Z.to_nat ms))
                      | None => fail EConfig
                      end
         | MList l =>
           if negb has_mask then fail EConfig
           else
             _ <- guard (forallb (fun '(i, _) => (0 <=? i) && (i <? Z.of_nat (List.length mvals))) l) EConfig ;;
             let numeric := fold_left (fun (acc : Z) '((i, b) : Z * bool) => if b then Z.lor acc (nth (Z.to_nat i) mvals 0) else acc) l 0 in
             let size := match msize with Some ms => Z.to_nat ms | None => Z.to_nat (byte_len numeric) end in
             to_bytes size numeric
         end) ;;
  mk_req_data "InputOutputControlByIdentifier" (db ++ cb ++ vb ++ mb).

Definition io_interpret (cfg : config) (did : Z) (cp : option Z) (r : resp) : M sdata :=
  let d := p_data r in
  _ <- guard (Nat.leb (match cp with Some _ => 3 | None => 2 end) (List.length d)) EInvalid ;;
  let did_echo := be_dec (firstn 2 d) in
  e <- fetch_io cfg did_echo ;;
  _ <- check_io_entry e ;;
  let '(sh, _, _, _) := e in
  let next := match cp with Some _ => 3%nat | None => 2%nat end in
  let cp_echo := match cp with Some _ => Some (nth 2 d 0) | None => None end in
  let remaining := skipn next d in
  let size := if sh <? 0 then List.length remaining else Z.to_nat sh in
  let remaining' :=
    if Nat.ltb size (List.length remaining) && all_zero (skipn size remaining) && tol_pad cfg
    then firstn size remaining else remaining in
  _ <- guard ((sh <? 0) || (Z.of_nat (List.length remaining') =? sh)) EInvalid ;;
  _ <- guard (did_echo =? did) EUnexpected ;;
  _ <- guard (match cp, cp_echo with Some a, Some b => a =? b | None, None => true | _, _ => false end) EUnexpected ;;
  ret (did_echo :: (match cp_echo with Some c => c | None => -1 end) :: enc_bytes remaining').

Definition io_control (cfg : config) (st : cstate) (did : Z) (cp : option Z) (values : option bytes) (masks : maskarg)
           (now : Z) (s : sched) : fres :=
  single_request cfg st (io_make cfg did cp values masks) (io_interpret cfg did cp) no_post now s.
