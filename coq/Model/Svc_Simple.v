(* Model of the fixed-header services and their client methods: ClearDiagnosticInformation, RoutineControl,
   AccessTimingParameter, CommunicationControl, TransferData, RequestTransferExit, LinkControl,
   ControlDTCSetting. *)
From Coq Require Import ZArith List Bool String.
From UDS Require Import Lib.Bytes Lib.ErrM Lib.PyOps Gen.Maps Model.Message Model.Client Model.Services Model.Helpers.
Import ListNotations.
Open Scope Z_scope.
Open Scope list_scope.

Definition odata (has : bool) (d : bytes) : option bytes := if has then Some d else None.
Definition obytes (o : option bytes) : bytes := match o with Some d => d | None => [] end.

(* a request of a service without subfunction whose data is given *)
Definition mk_req_data (name : string) (d : bytes) : M req := mk_req name None (Some d).

(* ---- ClearDiagnosticInformation / clear_dtc ------------------------------------------------------ *)
Definition cdi_make (cfg : config) (group : Z) (memsel : option Z) : M req :=
  _ <- validate_int group 0 16777215 ;;
  g <- pack_dtc group ;;
  ms <- match memsel with
        | None => ret []
        | Some m => if std cfg <? 2020 then fail ENotImpl
                    else (_ <- validate_int m 0 255 ;; pack_B m)
        end ;;
  mk_req_data "ClearDiagnosticInformation" (g ++ ms).
Definition clear_dtc (cfg : config) (st : cstate) (group : Z) (memsel : option Z) (now : Z) (s : sched) : fres :=
  single_request cfg st (cdi_make cfg group memsel) (fun _ => ret []) no_post now s.

(* ---- RoutineControl -------------------------------------------------------------------------------- *)
Definition rc_make (rid ct : Z) (data : option bytes) : M req :=
  _ <- validate_int rid 0 65535 ;;
  _ <- validate_int ct 0 127 ;;
  idb <- pack_H rid ;;
  mk_req "RoutineControl" (Some ct) (Some (idb ++ obytes data)).
Definition rc_interpret (rid ct : Z) (r : resp) : M sdata :=
  match p_data r with
  | echo :: i1 :: i0 :: rec =>
    _ <- guard (ct =? echo) EUnexpected ;;
    _ <- guard (rid =? i1 * 256 + i0) EUnexpected ;;
    ret (echo :: (i1 * 256 + i0) :: enc_bytes rec)
  | _ => fail EInvalid
  end.
Definition routine_control (cfg : config) (st : cstate) (rid ct : Z) (data : option bytes) (now : Z) (s : sched) : fres :=
  single_request cfg st (rc_make rid ct data) (rc_interpret rid ct) no_post now s.

(* ---- AccessTimingParameter ------------------------------------------------------------------------- *)
Definition atp_make (at_ : Z) (rec : option bytes) : M req :=
  _ <- validate_int at_ 0 127 ;;
  match rec with
  | Some d => if at_ =? 4 then mk_req "AccessTimingParameter" (Some at_) (Some d) else fail EValue
  | None => if at_ =? 4 then fail EValue else mk_req "AccessTimingParameter" (Some at_) (Some [])
  end.
Definition atp_interpret (at_ : Z) (r : resp) : M sdata :=
  match p_data r with
  | [] => fail EInvalid
  | echo :: rec => _ <- guard (at_ =? echo) EUnexpected ;; ret (echo :: enc_bytes rec)
  end.
Definition access_timing_parameter (cfg : config) (st : cstate) (at_ : Z) (rec : option bytes) (now : Z) (s : sched) : fres :=
  single_request cfg st (atp_make at_ rec) (atp_interpret at_) no_post now s.

(* ---- CommunicationControl -------------------------------------------------------------------------- *)
(* the communication type comes as a CommunicationType object, as an integer or as a bytes object of length 1 (from_byte:
   struct.unpack('B', ..) refuses any other length with struct.error) *)
Inductive ctarg := CtObj (subnet : Z) (normal nm : bool) | CtInt (v : Z) | CtBytes (b : bytes).
Definition ct_normalize (a : ctarg) : M commtype :=
  match a with
  | CtObj sn n m => mk_commtype sn n m
  | CtInt v => _ <- validate_int v 0 255 ;; commtype_from_byte v
  | CtBytes [v] => _ <- validate_int v 0 255 ;; commtype_from_byte v
  | CtBytes _ => fail EStruct
  end.
Definition cc_make (cfg : config) (ct : Z) (cty : commtype) (node : option Z) : M req :=
  _ <- validate_int ct 0 127 ;;
  let require := (2013 <=? std cfg) && ((ct =? 4) || (ct =? 5)) in
  _ <- (match node with
        | None => if require then fail EValue else ret tt
        | Some _ => if require then ret tt else fail EValue
        end) ;;
  b <- pack_B (commtype_byte cty) ;;
  nd <- match node with
        | None => ret []
        | Some n => _ <- validate_int n 0 65535 ;; pack_H n
        end ;;
  mk_req "CommunicationControl" (Some ct) (Some (b ++ nd)).
Definition echo1_interpret (expected : Z) (r : resp) : M sdata :=
  match p_data r with
  | [] => fail EInvalid
  | echo :: _ => _ <- guard (expected =? echo) EUnexpected ;; ret [echo]
  end.
Definition communication_control (cfg : config) (st : cstate) (ct : Z) (a : ctarg) (node : option Z) (now : Z) (s : sched) : fres :=
  match ct_normalize a with
  | inl e => (CErr e None, st, now, s, [])
  | inr cty => single_request cfg st (cc_make cfg ct cty node) (echo1_interpret ct) no_post now s
  end.

(* ---- TransferData / RequestTransferExit -------------------------------------------------------------- *)
Definition td_make (seq : Z) (data : option bytes) : M req :=
  _ <- validate_int seq 0 255 ;;
  b <- pack_B seq ;;
  mk_req_data "TransferData" (b ++ obytes data).
Definition td_interpret (seq : Z) (r : resp) : M sdata :=
  match p_data r with
  | [] => fail EInvalid
  | echo :: rec => _ <- guard (seq =? echo) EUnexpected ;; ret (echo :: enc_bytes rec)
  end.
Definition transfer_data (cfg : config) (st : cstate) (seq : Z) (data : option bytes) (now : Z) (s : sched) : fres :=
  single_request cfg st (td_make seq data) (td_interpret seq) no_post now s.

Definition rte_make (data : option bytes) : M req := mk_req "RequestTransferExit" None data.
Definition request_transfer_exit (cfg : config) (st : cstate) (data : option bytes) (now : Z) (s : sched) : fres :=
  single_request cfg st (rte_make data) (fun r => ret (enc_bytes (p_data r))) no_post now s.

(* ---- LinkControl ------------------------------------------------------------------------------------- *)
Definition lc_make (ct : Z) (b : option baud) : M req :=
  _ <- validate_int ct 0 127 ;;
  _ <- (if (ct =? 2) || (ct =? 1) then match b with None => fail EValue | Some _ => ret tt end
        else match b with None => ret tt | Some _ => fail EValue end) ;;
  b1 <- (if ct =? 2 then match b with Some x => (y <- baud_make_new_type x gen_baud_Specific ;; ret (Some y)) | None => ret None end
         else ret b) ;;
  b2 <- (if ct =? 1 then
           match b1 with
           | Some x => if bd_type x =? gen_baud_Specific then (y <- baud_make_new_type x gen_baud_Fixed ;; ret (Some y)) else ret (Some x)
           | None => ret None
           end
         else ret b1) ;;
  match b2 with
  | Some x => d <- baud_bytes x ;; mk_req "LinkControl" (Some ct) (Some d)
  | None => mk_req "LinkControl" (Some ct) None
  end.
(* the client renders str(baudrate) for its log line before sending: effective_baudrate of the caller's object *)
Definition lc_make_client (ct : Z) (b : option baud) : M req :=
  rq <- lc_make ct b ;;
  _ <- match b with Some x => (_ <- baud_effective x ;; ret tt) | None => ret tt end ;;
  ret rq.
Definition link_control (cfg : config) (st : cstate) (ct : Z) (b : M (option baud)) (now : Z) (s : sched) : fres :=
  single_request cfg st (x <- b ;; lc_make_client ct x) (echo1_interpret ct) no_post now s.

(* ---- ControlDTCSetting --------------------------------------------------------------------------------- *)
Definition cds_make (stype : Z) (data : option bytes) : M req :=
  _ <- validate_int stype 0 127 ;; mk_req "ControlDTCSetting" (Some stype) data.
Definition control_dtc_setting (cfg : config) (st : cstate) (stype : Z) (data : option bytes) (now : Z) (s : sched) : fres :=
  single_request cfg st (cds_make stype data) (echo1_interpret stype) no_post now s.
