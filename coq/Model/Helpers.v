(* Model of the fixed-width helper codecs: Dtc.Status / Severity / DtcClass (masks regenerated),
   CommunicationType, DataFormatIdentifier, AddressAndLengthFormatIdentifier, Baudrate, pack_dtc. *)
From Coq Require Import ZArith List Bool String.
From UDS Require Import Lib.Bytes Lib.ErrM Lib.PyOps Gen.Masks Gen.Maps.
Import ListNotations.
Open Scope string_scope.
Open Scope Z_scope.
Open Scope list_scope.

(* ---- flag bytes: a value is the list of its boolean fields in constructor order --------------- *)
Fixpoint field_value (fields : list string) (vals : list bool) (f : string) : bool :=
  match fields, vals with
  | g :: fs, v :: vs => if String.eqb g f then v else field_value fs vs f
  | _, _ => false
  end.

(* get_byte_as_int: byte |= mask if self.field else 0, for each (field, mask) *)
Definition flags_enc (fields : list string) (enc : list (string * Z)) (vals : list bool) : Z :=
  fold_left (fun b '(f, m) => if field_value fields vals f then Z.lor b m else b) enc 0.

(* set_byte: self.field = byte & mask > 0 *)
Definition flags_dec (fields : list string) (dec : list (string * Z)) (b : Z) : list bool :=
  map (fun f => match find (fun '(g, _) => String.eqb g f) dec with
                | Some (_, m) => 0 <? Z.land b m
                | None => false
                end) fields.

Definition status_enc := flags_enc gen_status_fields gen_status_enc.
Definition status_dec := flags_dec gen_status_fields gen_status_dec.
Definition severity_enc := flags_enc gen_severity_fields gen_severity_enc.
Definition severity_dec := flags_dec gen_severity_fields gen_severity_dec.
Definition dtcclass_enc := flags_enc gen_dtcclass_fields gen_dtcclass_enc.
Definition dtcclass_dec := flags_dec gen_dtcclass_fields gen_dtcclass_dec.

(* ---- CommunicationType ------------------------------------------------------------------------- *)
Record commtype := { ct_subnet : Z; ct_normal : bool; ct_nm : bool }.
Definition mk_commtype (subnet : Z) (normal nm : bool) : M commtype :=
  if (subnet <? 0) || (15 <? subnet) then fail EValue
  else if negb normal && negb nm then fail EValue
  else ret {| ct_subnet := subnet; ct_normal := normal; ct_nm := nm |}.
Definition commtype_byte (c : commtype) : Z :=
  let mt := Z.lor (if ct_normal c then 1 else 0) (if ct_nm c then 2 else 0) in
  Z.lor (Z.land mt 3) (Z.shiftl (Z.land (ct_subnet c) 15) 4).
Definition commtype_from_byte (v : Z) : M commtype :=
  mk_commtype (Z.shiftr (Z.land v 240) 4) (0 <? Z.land v 1) (0 <? Z.land v 2).

(* ---- DataFormatIdentifier ------------------------------------------------------------------------ *)
Record dfi := { df_comp : Z; df_enc : Z }.
Definition mk_dfi (c e : Z) : M dfi :=
  if (c <? 0) || (15 <? c) || (e <? 0) || (15 <? e) then fail EValue
  else ret {| df_comp := c; df_enc := e |}.
Definition dfi_byte (d : dfi) : Z := Z.lor (Z.shiftl (Z.land (df_comp d) 15) 4) (Z.land (df_enc d) 15).
Definition dfi_from_byte (b : Z) : M dfi := mk_dfi (Z.land (Z.shiftr b 4) 15) (Z.land b 15).

(* ---- AddressAndLengthFormatIdentifier ---------------------------------------------------------- *)
Definition map_get (m : list (Z * Z)) (k : Z) : option Z :=
  match find (fun '(a, _) => a =? k) m with Some (_, v) => Some v | None => None end.
Record alfid := { al_addr : Z; al_size : Z }.   (* formats in bits *)
Definition mk_alfid (af mf : Z) : M alfid :=
  match map_get gen_alfid_address_map af, map_get gen_alfid_memsize_map mf with
  | Some _, Some _ => ret {| al_addr := af; al_size := mf |}
  | _, _ => fail EValue
  end.
Definition alfid_byte (a : alfid) : M Z :=
  match map_get gen_alfid_memsize_map (al_size a), map_get gen_alfid_address_map (al_addr a) with
  | Some s, Some ad => ret (Z.land (Z.lor (Z.shiftl s 4) ad) 255)
  | _, _ => fail EKey
  end.

(* ---- Baudrate ------------------------------------------------------------------------------- *)
Record baud := { bd_rate : Z; bd_type : Z }.
Definition mk_baud (rate ty : Z) : M baud :=
  if rate <? 0 then fail EValue
  else
    let ty' := if ty =? gen_baud_Auto then
                 match map_get gen_baudrate_map rate with
                 | Some _ => gen_baud_Fixed
                 | None => if rate <=? 255 then gen_baud_Identifier else gen_baud_Specific
                 end
               else ty in
    if ty' =? gen_baud_Specific then
      if 16777215 <? rate then fail EValue else ret {| bd_rate := rate; bd_type := ty' |}
    else if ty' =? gen_baud_Identifier then
      if 255 <? rate then fail EValue else ret {| bd_rate := rate; bd_type := ty' |}
    else if ty' =? gen_baud_Fixed then
      match map_get gen_baudrate_map rate with
      | Some _ => ret {| bd_rate := rate; bd_type := ty' |}
      | None => fail EValue
      end
    else fail EValue.

Definition baud_bytes (b : baud) : M bytes :=
  if bd_type b =? gen_baud_Fixed then
    match map_get gen_baudrate_map (bd_rate b) with Some v => pack_B v | None => fail EKey end
  else if bd_type b =? gen_baud_Specific then
    b1 <- pack_B (Z.land (Z.shiftr (bd_rate b) 16) 255) ;;
    b2 <- pack_B (Z.land (Z.shiftr (bd_rate b) 8) 255) ;;
    b3 <- pack_B (Z.land (Z.shiftr (bd_rate b) 0) 255) ;;
    ret (b1 ++ b2 ++ b3)
  else if bd_type b =? gen_baud_Identifier then pack_B (bd_rate b)
  else fail ERuntime.

Definition baud_effective (b : baud) : M Z :=
  if bd_type b =? gen_baud_Identifier then
    match find (fun '(_, v) => v =? bd_rate b) gen_baudrate_map with
    | Some (k, _) => ret k
    | None => fail ERuntime
    end
  else ret (bd_rate b).

Definition baud_make_new_type (b : baud) (ty : Z) : M baud :=
  if (ty =? gen_baud_Fixed) || (ty =? gen_baud_Specific) then
    r <- baud_effective b ;; mk_baud r ty
  else fail EValue.

(* ---- ReadDTCInformation.pack_dtc --------------------------------------------------------------- *)
Definition pack_dtc (d : Z) : M bytes :=
  b1 <- pack_B (Z.land (Z.shiftr d 16) 255) ;;
  b2 <- pack_B (Z.land (Z.shiftr d 8) 255) ;;
  b3 <- pack_B (Z.land (Z.shiftr d 0) 255) ;;
  ret (b1 ++ b2 ++ b3).

(* ---- correspondence entry points ------------------------------------------------------------- *)
Definition bits_of (n : nat) (b : Z) : list bool := map (fun i => Z.testbit b (Z.of_nat i)) (seq 0 n).
Definition enc_bools (l : list bool) : list Z := map enc_bool l.
Definition enc_baud (b : baud) : list Z := [bd_rate b; bd_type b].

Definition entry_helpers (e : Z) (a : list Z) : list Z :=
  let x := nth 0 a 0 in let y := nth 1 a 0 in let z := nth 2 a 0 in
  if e =? 1901 then [status_enc (bits_of 8 x)] ++ enc_bools (status_dec x)
  else if e =? 1902 then [severity_enc (bits_of 3 x)] ++ enc_bools (severity_dec x)
  else if e =? 1903 then [dtcclass_enc (bits_of 5 x)] ++ enc_bools (dtcclass_dec x)
  else if e =? 1904 then enc_M (fun c => [commtype_byte c]) (mk_commtype x (y =? 1) (z =? 1))
  else if e =? 1905 then enc_M (fun c => [ct_subnet c; enc_bool (ct_normal c); enc_bool (ct_nm c)]) (commtype_from_byte x)
  else if e =? 1906 then enc_M (fun d => [dfi_byte d]) (mk_dfi x y)
  else if e =? 1907 then enc_M (fun d => [df_comp d; df_enc d]) (dfi_from_byte x)
  else if e =? 1908 then enc_M (fun v => [v]) (al <- mk_alfid x y ;; alfid_byte al)
  else if e =? 1909 then
    match mk_baud x y with
    | inl er => [err_code er]
    | inr b => 0 :: enc_baud b ++ enc_M enc_bytes (baud_bytes b) ++ enc_M (fun v => [v]) (baud_effective b)
                 ++ enc_M enc_baud (baud_make_new_type b z)
    end
  else if e =? 1910 then enc_M enc_bytes (pack_dtc x)
  else [-999].
