(* Model of udsoncan/Request.py, udsoncan/Response.py, BaseService.from_request_id/from_response_id,
   ResponseCode.get_name / is_negative.  Mirrors the Python construct by construct; no proofs here. *)
From Coq Require Import ZArith List Bool String Ascii DecimalString.
From UDS Require Import Lib.Bytes Lib.ErrM Lib.PyOps Gen.ServiceTable Gen.Nrc.
Import ListNotations.
Open Scope string_scope.
Open Scope Z_scope.
Open Scope list_scope.

Record svc := { s_name : string; s_sid : Z; s_sub : bool; s_rdata : bool }.

Definition services : list svc :=
  map (fun '(n, i, s, d) => Build_svc n i s d) gen_services.

Definition svc_eqb (a b : svc) : bool := s_sid a =? s_sid b.

(* BaseService.from_request_id / from_response_id: first subclass whose id matches *)
Definition from_request_id (id : Z) : option svc := find (fun s => s_sid s =? id) services.
Definition from_response_id (id : Z) : option svc := find (fun s => s_sid s + 64 =? id) services.

(* ---- ResponseCode ------------------------------------------------------------------------- *)
Definition dec_string (z : Z) : string :=
  if z <? 0 then append "-" (NilZero.string_of_uint (N.to_uint (Z.to_N (- z))))
  else NilZero.string_of_uint (N.to_uint (Z.to_N z)).

(* first member, in name order, whose value is the code; else the decimal string *)
Definition nrc_name (code : Z) : string :=
  match find (fun '(_, v) => v =? code) gen_nrc with
  | Some (n, _) => n
  | None => dec_string code
  end.

(* ResponseCode.is_negative: every code other than PositiveResponse (0) is negative *)
Definition nrc_is_negative (code : Z) : bool := negb (code =? 0).

(* ---- Request -------------------------------------------------------------------------------- *)
Record req := { q_svc : option svc; q_sub : option Z; q_spr : bool; q_data : option bytes }.

(* Request.__init__ (type checks on the arguments are outside the model: arguments are typed) *)
Definition mk_request (s : option svc) (sub : option Z) (spr : bool) (data : option bytes) : M req :=
  match s with
  | Some sv => if spr && negb (s_sub sv) then fail EValue
               else ret {| q_svc := s; q_sub := sub; q_spr := spr; q_data := data |}
  | None => ret {| q_svc := s; q_sub := sub; q_spr := spr; q_data := data |}
  end.

(* Request.get_payload(suppress_positive_response = ov) *)
Definition request_payload (r : req) (ov : option bool) : M bytes :=
  match q_svc r with
  | None => fail EValue
  | Some sv =>
    if s_sub sv then
      match q_sub r with
      | None => fail EValue
      | Some sub0 =>
        let sub :=
          match ov with
          | None => if q_spr r then Z.lor sub0 128 else sub0
          | Some true => Z.lor sub0 128
          | Some false => Z.land sub0 (Z.lnot 128)
          end in
        sid <- pack_B (s_sid sv) ;;
        sb <- pack_B sub ;;
        ret (sid ++ sb ++ match q_data r with Some d => d | None => [] end)
      end
    else
      if (match ov with Some true => true | _ => false end) || q_spr r then fail EValue
      else
        sid <- pack_B (s_sid sv) ;;
        ret (sid ++ match q_data r with Some d => d | None => [] end)
  end.

(* Request.from_payload *)
Definition parse_request (p : bytes) : req :=
  let empty := {| q_svc := None; q_sub := None; q_spr := false; q_data := None |} in
  match p with
  | [] => empty
  | b0 :: rest =>
    match from_request_id b0 with
    | None => empty
    | Some sv =>
      if s_sub sv then
        match rest with
        | [] => {| q_svc := Some sv; q_sub := None; q_spr := false; q_data := None |}
        | b1 :: d =>
          {| q_svc := Some sv; q_sub := Some (Z.land b1 127); q_spr := 0 <? Z.land b1 128;
             q_data := match d with [] => None | _ => Some d end |}
        end
      else
        {| q_svc := Some sv; q_sub := None; q_spr := false;
           q_data := match rest with [] => None | _ => Some rest end |}
    end
  end.

(* ---- Response ------------------------------------------------------------------------------- *)
Inductive reason := RNone | RNotInit | REmpty | RBadRespId | RTooShort | RIncomplete7F | RBadReqId | RCodeMissing.
Definition reason_code (r : reason) : Z :=
  match r with RNone => 0 | RNotInit => 1 | REmpty => 2 | RBadRespId => 3 | RTooShort => 4
             | RIncomplete7F => 5 | RBadReqId => 6 | RCodeMissing => 7 end.

Record resp := {
  p_svc : option svc; p_code : option Z; p_name : string;
  p_positive : bool; p_valid : bool; p_reason : reason; p_unexpected : bool;
  p_data : bytes; p_orig : option bytes }.

Definition resp_blank : resp :=
  {| p_svc := None; p_code := None; p_name := ""; p_positive := false; p_valid := false;
     p_reason := RNotInit; p_unexpected := false; p_data := []; p_orig := None |}.

(* Response.__init__ *)
Definition mk_response (s : option svc) (code : option Z) (data : option bytes) : M resp :=
  let d := match data with Some d => d | None => [] end in
  match code with
  | None =>
    ret {| p_svc := s; p_code := None; p_name := ""; p_positive := false; p_valid := false;
           p_reason := RNotInit; p_unexpected := false; p_data := d; p_orig := None |}
  | Some c =>
    if (c <? 0) || (255 <? c) then fail EValue
    else
      let ok := match s with Some _ => true | None => false end in
      ret {| p_svc := s; p_code := Some c; p_name := nrc_name c;
             p_positive := negb (nrc_is_negative c); p_valid := ok;
             p_reason := if ok then RNone else RNotInit; p_unexpected := false;
             p_data := d; p_orig := None |}
  end.

(* Response.get_payload *)
Definition response_payload (r : resp) : M bytes :=
  match p_svc r with
  | None => fail EValue
  | Some sv =>
    match p_code r with
    | None => fail EValue
    | Some c =>
      hd <- (if p_positive r then pack_B (s_sid sv + 64)
             else (a <- pack_B (s_sid sv) ;; b <- pack_B c ;; ret (127 :: a ++ b))) ;;
      ret (hd ++ p_data r)
    end
  end.

(* Response.from_payload *)
Definition parse_response (p : bytes) : resp :=
  let base := {| p_svc := None; p_code := None; p_name := ""; p_positive := false; p_valid := false;
                 p_reason := RNotInit; p_unexpected := false; p_data := []; p_orig := Some p |} in
  let bad (sv : option svc) (pos : bool) (why : reason) :=
    {| p_svc := sv; p_code := None; p_name := ""; p_positive := pos; p_valid := false;
       p_reason := why; p_unexpected := false; p_data := []; p_orig := Some p |} in
  match p with
  | [] => bad None false REmpty
  | b0 :: rest =>
    if negb (b0 =? 127) then
      match from_response_id b0 with
      | None => bad None false RBadRespId
      | Some sv =>
        match rest with
        | [] =>
          if s_rdata sv then bad (Some sv) false RTooShort
          else {| p_svc := Some sv; p_code := Some 0; p_name := nrc_name 0; p_positive := true;
                  p_valid := true; p_reason := RNone; p_unexpected := false; p_data := [];
                  p_orig := Some p |}
        | _ =>
          {| p_svc := Some sv; p_code := Some 0; p_name := nrc_name 0; p_positive := true;
             p_valid := true; p_reason := RNone; p_unexpected := false; p_data := rest;
             p_orig := Some p |}
        end
      end
    else
      match rest with
      | [] => bad None false RIncomplete7F
      | b1 :: rest2 =>
        match from_request_id b1 with
        | None => bad None false RBadReqId
        | Some sv =>
          match rest2 with
          | [] => bad (Some sv) false RCodeMissing
          | c :: d =>
            {| p_svc := Some sv; p_code := Some c; p_name := nrc_name c; p_positive := false;
               p_valid := true; p_reason := RNone; p_unexpected := false; p_data := d;
               p_orig := Some p |}
          end
        end
      end
  end.

(* ---- canonical rendering for the correspondence ------------------------------------------- *)
Definition enc_string (s : string) : list Z :=
  enc_bytes (map (fun a => Z.of_N (N_of_ascii a)) (list_ascii_of_string s)).
Definition enc_svc (o : option svc) : Z := match o with Some s => s_sid s | None => -1 end.
Definition enc_req (r : req) : list Z :=
  enc_svc (q_svc r) :: (match q_sub r with Some v => v | None => -1 end) :: enc_bool (q_spr r)
  :: enc_opt enc_bytes (q_data r).
Definition enc_resp (r : resp) : list Z :=
  enc_svc (p_svc r) :: (match p_code r with Some v => v | None => -1 end) :: enc_bool (p_positive r)
  :: enc_bool (p_valid r) :: (if reason_code (p_reason r) =? 0 then 0 else 1) :: enc_bool (p_unexpected r)
  :: enc_bytes (p_data r) ++ enc_string (p_name r).
