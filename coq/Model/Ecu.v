(* A stateful reference ECU written from ISO 14229-1 (not from the client code): it stores what it is sent and
   answers with the standard's positive responses.  Used by C12: the real client talks to the extracted ECU and the
   client model talks to the same ECU inside Coq. *)
From Coq Require Import ZArith List Bool String.
From UDS Require Import Lib.Bytes Lib.ErrM Lib.PyOps Model.Message Model.Client Model.Services Model.Svc_Did Model.History.
Import ListNotations.
Open Scope Z_scope.
Open Scope list_scope.

Record download := { dl_addr : Z; dl_size : Z; dl_data : bytes; dl_next : Z }.
Record ecu := {
  e_dids : list (Z * bytes);        (* data identifier -> stored value, latest first *)
  e_mem : list (Z * Z);             (* address -> byte, latest first *)
  e_dl : option download;           (* transfer in progress *)
  e_blk : Z                         (* maxNumberOfBlockLength announced (2 bytes) *)
}.
Definition ecu_init (blk : Z) : ecu := {| e_dids := []; e_mem := []; e_dl := None; e_blk := blk |}.

Definition set_dids (e : ecu) (d : list (Z * bytes)) : ecu := {| e_dids := d; e_mem := e_mem e; e_dl := e_dl e; e_blk := e_blk e |}.
Definition set_mem (e : ecu) (m : list (Z * Z)) : ecu := {| e_dids := e_dids e; e_mem := m; e_dl := e_dl e; e_blk := e_blk e |}.
Definition set_dl (e : ecu) (d : option download) : ecu := {| e_dids := e_dids e; e_mem := e_mem e; e_dl := d; e_blk := e_blk e |}.

Fixpoint mem_write (m : list (Z * Z)) (addr : Z) (data : bytes) : list (Z * Z) :=
  match data with
  | [] => m
  | b :: tl => mem_write ((addr, b) :: m) (addr + 1) tl
  end.
Fixpoint mem_read (m : list (Z * Z)) (addr : Z) (n : nat) : option bytes :=
  match n with
  | O => Some []
  | S k => match lookup addr m, mem_read m (addr + 1) k with
           | Some b, Some rest => Some (b :: rest)
           | _, _ => None
           end
  end.

Definition nrc (sid code : Z) : bytes := [127; sid; code].

(* ALFID, address, size as the standard lays them out; returns (address, size, rest) *)
Definition parse_memloc (d : bytes) : option (bytes * Z * Z * bytes) :=
  match d with
  | alfid :: rest =>
    let na := Z.to_nat (alfid mod 16) in let ns := Z.to_nat (alfid / 16) in
    if (Nat.leb 1 na) && (Nat.leb na 8) && (Nat.leb 1 ns) && (Nat.leb ns 8) && Nat.leb (na + ns) (List.length rest) then
      Some (alfid :: firstn (na + ns) rest, be_dec (firstn na rest), be_dec (firstn ns (skipn na rest)), skipn (na + ns) rest)
    else None
  | [] => None
  end.

Fixpoint read_dids (dids : list (Z * bytes)) (req : bytes) (fuel : nat) : option bytes :=
  match fuel with
  | O => None
  | S k =>
    match req with
    | [] => Some []
    | d1 :: d0 :: tl =>
      match lookup (d1 * 256 + d0) dids, read_dids dids tl k with
      | Some v, Some rest => Some (d1 :: d0 :: v ++ rest)
      | _, _ => None
      end
    | _ => None
    end
  end.

Definition quiet (sub : Z) (rep : bytes) : bytes := if 128 <=? sub then [] else rep.

Definition ecu_step (e : ecu) (req : bytes) : ecu * bytes :=
  match req with
  | [] => (e, [])
  | sid :: body =>
    if sid =? 46 then            (* WriteDataByIdentifier *)
      match body with
      | d1 :: d0 :: v => (set_dids e ((d1 * 256 + d0, v) :: e_dids e), [110; d1; d0])
      | _ => (e, nrc sid 19)
      end
    else if sid =? 34 then       (* ReadDataByIdentifier *)
      match body with
      | [] => (e, nrc sid 19)
      | _ => match read_dids (e_dids e) body (S (List.length body)) with
             | Some out => (e, 98 :: out)
             | None => (e, nrc sid 49)
             end
      end
    else if sid =? 61 then       (* WriteMemoryByAddress *)
      match parse_memloc body with
      | Some (echo, addr, size, data) =>
        if Z.of_nat (List.length data) =? size then (set_mem e (mem_write (e_mem e) addr data), 125 :: echo)
        else (e, nrc sid 19)
      | None => (e, nrc sid 19)
      end
    else if sid =? 35 then       (* ReadMemoryByAddress *)
      match parse_memloc body with
      | Some (_, addr, size, []) =>
        match mem_read (e_mem e) addr (Z.to_nat size) with
        | Some out => if Nat.eqb (List.length out) 0 then (e, nrc sid 49) else (e, 99 :: out)
        | None => (e, nrc sid 49)
        end
      | _ => (e, nrc sid 19)
      end
    else if sid =? 52 then       (* RequestDownload: dfi, memory location *)
      match body with
      | _ :: loc =>
        match parse_memloc loc with
        | Some (_, addr, size, []) =>
          (set_dl e (Some {| dl_addr := addr; dl_size := size; dl_data := []; dl_next := 1 |}), [116; 32] ++ be_enc 2 (e_blk e))
        | _ => (e, nrc sid 19)
        end
      | [] => (e, nrc sid 19)
      end
    else if sid =? 54 then       (* TransferData *)
      match body, e_dl e with
      | ctr :: data, Some d =>
        if ctr =? dl_next d then
          (set_dl e (Some {| dl_addr := dl_addr d; dl_size := dl_size d; dl_data := dl_data d ++ data; dl_next := (ctr + 1) mod 256 |}), [118; ctr])
        else (e, nrc sid 115)
      | _, _ => (e, nrc sid 36)
      end
    else if sid =? 55 then       (* RequestTransferExit *)
      match e_dl e with
      | Some d => (set_dl (set_mem e (mem_write (e_mem e) (dl_addr d) (dl_data d))) None, [119])
      | None => (e, nrc sid 36)
      end
    (* services with a subfunction: bit 7 of it (suppressPosRspMsgIndicationBit) silences the positive response only *)
    else if sid =? 16 then
      match body with
      | s :: _ => if (1 <=? Z.land s 127) && (Z.land s 127 <=? 4) then (e, quiet s [80; Z.land s 127; 0; 50; 1; 244]) else (e, nrc sid 18)
      | [] => (e, nrc sid 19)
      end
    else if sid =? 39 then
      match body with
      | l :: _ => if Z.land l 127 mod 2 =? 1 then (e, quiet l [103; Z.land l 127; 1; 2; 3; 4]) else (e, quiet l [103; Z.land l 127])
      | [] => (e, nrc sid 19)
      end
    else if sid =? 62 then match body with s :: _ => (e, quiet s [126; 0]) | [] => (e, nrc sid 19) end
    else if sid =? 17 then match body with t :: _ => (e, quiet t [81; Z.land t 127]) | [] => (e, nrc sid 19) end
    else (e, nrc sid 17)
  end.

(* ---- the client model talking to the ECU ---------------------------------------------------------------------------- *)
Definition sent_frames (tr : list ev) : list bytes := flat_map (fun x => match x with EvS p => [p] | _ => [] end) tr.

(* run one call reactively: each frame the client sends is answered by the ECU (1 + lat) us later; nf = frames the ECU
   has processed so far (a silent ECU still processes the frame) *)
Fixpoint react (fuel : nat) (cfg : config) (st : cstate) (e : ecu) (c : call) (now lat : Z) (nf : nat) (answered : list (Z * item))
  : outcome (option iresp) * cstate * Z * list ev * ecu :=
  let '(out, st', t, _, tr) := run_call cfg st c now answered in
  match fuel with
  | O => (out, st', t, tr, e)
  | S k =>
    let frames := sent_frames tr in
    if Nat.ltb nf (List.length frames) then
      let f := nth nf frames [] in
      let '(e', rep) := ecu_step e f in
      match rep with
      | [] => react k cfg st e' c now lat (S nf) answered
      | _ => react k cfg st e' c now lat (S nf) (answered ++ [(now + 1 + lat + Z.of_nat nf, Frame rep)])
      end
    else (out, st', t, tr, e)
  end.

Definition enc_ecu (e : ecu) : list Z :=
  enc_list (fun '(d, v) => d :: enc_bytes v) (e_dids e) ++ enc_list (fun '(a, b) => [a; b]) (e_mem e)
  ++ [match e_dl e with Some _ => 1 | None => 0 end].

(* a history against one ECU: client calls, suppress-positive-response blocks, ECU latency changes, idle time.  Each call
   starts from an empty reception queue (the client flushes before it sends): answers the client never read - to a request
   sent without waiting, or arriving after a timeout - are gone. *)
Inductive eop := ECall (c : call) | ESprEnter (w : bool) | ESprExit | ELatency (lat : Z) | EIdle (dt : Z).

(* per call the outcome and the frames sent; then the ECU state *)
Fixpoint run_ecu_calls (cfgv : list Z) (st : cstate) (e : ecu) (now lat : Z) (ops : list eop) : list Z :=
  match ops with
  | [] => enc_ecu e
  | ECall c :: rest =>
    let '(out, st', t, tr, e') := react 4 (cfg_of cfgv) st e c now lat 0 [] in
    enc_outcome enc_sdata_resp out ++ enc_list enc_bytes (sent_frames tr) ++ run_ecu_calls cfgv st' e' t lat rest
  | ESprEnter w :: rest => run_ecu_calls cfgv (spr_enter (spr_call st w)) e now lat rest
  | ESprExit :: rest => run_ecu_calls cfgv (spr_exit st) e now lat rest
  | ELatency l :: rest => run_ecu_calls cfgv st e now l rest
  | EIdle dt :: rest => run_ecu_calls cfgv st e (now + dt) lat rest
  end.

(* flat case: ints = [L] ++ cfg ++ [blk; ncalls] ++ (callid nargs args.. ncb)* ; blobs in order *)
Definition decode_eop (id : Z) (args : list Z) (b : list bytes) : eop :=
  if id =? 100 then ESprEnter (hd 0 args =? 1)
  else if id =? 101 then ESprExit
  else if id =? 102 then ELatency (hd 0 args)
  else if id =? 103 then EIdle (hd 0 args)
  else if id =? 104 then EIdle 0        (* harness marker (the application reuses its argument objects): nothing happens *)
  else ECall (decode_call id args b).

Fixpoint decode_calls (n : nat) (a : list Z) (b : list bytes) : list eop :=
  match n with
  | O => []
  | S k =>
    match a with
    | id :: nargs :: a' =>
      let args := firstn (Z.to_nat nargs) a' in
      match skipn (Z.to_nat nargs) a' with
      | ncb :: a2 => decode_eop id args (firstn (Z.to_nat ncb) b) :: decode_calls k a2 (skipn (Z.to_nat ncb) b)
      | [] => []
      end
    | _ => []
    end
  end.

(* the ECU as a function of the whole request history (stateless entry points for the harness) *)
Definition ecu_after (blk : Z) (frames : list bytes) : ecu := fold_left (fun e f => fst (ecu_step e f)) frames (ecu_init blk).
Definition ecu_reply (blk : Z) (frames : list bytes) : bytes :=
  match rev frames with
  | [] => []
  | last :: before => snd (ecu_step (ecu_after blk (rev before)) last)
  end.

Definition entry_ecu (e : Z) (a0 : list Z) (b : list bytes) : list Z :=
  if e =? 1200 then enc_bytes (ecu_reply (hd 0 a0) b)
  else if e =? 1202 then enc_ecu (ecu_after (hd 0 a0) b)
  else if e =? 1201 then
    let L := Z.to_nat (hd 0 a0) in
    let a := tl a0 in
    let cfgv := firstn L a in
    match skipn L a with
    | blk :: n :: rest => run_ecu_calls cfgv st_init (ecu_init blk) 0 0 (decode_calls (Z.to_nat n) rest b)
    | _ => [-998]
    end
  else [-999].
