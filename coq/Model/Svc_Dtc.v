(* Model of ReadDTCInformation (make_request, the ten response decoders) and Client.read_dtc_information.
   The subfunction groupings are regenerated (Gen/DtcGroups.v).  Record loops run on fuel S (length data);
   Proofs show the fuel always suffices. *)
From Coq Require Import ZArith List Bool String.
From UDS Require Import Lib.Bytes Lib.ErrM Lib.PyOps Gen.DtcGroups Model.Message Model.Client Model.Services
  Model.Helpers Model.Svc_Simple Model.Svc_Did.
Import ListNotations.
Open Scope string_scope.
Open Scope Z_scope.
Open Scope list_scope.

Definition group (name : string) : list Z :=
  match find (fun '(n, _) => String.eqb n name) gen_dtc_groups with Some (_, l) => l | None => [] end.
Definition in_group (name : string) (sub : Z) : bool := existsb (Z.eqb sub) (group name).

(* check_subfunction_valid: 1..0xFF, a defined subfunction, 2020-only ones refused under earlier editions *)
Definition check_subfunction_valid (std_ : Z) (sub : Z) : M unit :=
  _ <- validate_int sub 1 255 ;;
  _ <- guard (existsb (Z.eqb sub) gen_dtc_subfunctions) EValue ;;
  if in_group "subfunction2020" sub && (std_ <? 2020) then fail ENotImpl else ret tt.

Record dtcargs := {
  da_status : option Z; da_severity : option Z; da_sev_obj : bool; da_class : option Z; da_dtc : option Z;
  da_snap : option Z; da_ext : option Z; da_memsel : option Z; da_fgid : option Z;
  da_ext_size : option Z     (* the extended_data_size argument of the client method *)
}.

Definition need (o : option Z) (lo hi : Z) : M Z :=
  match o with None => fail EValue | Some v => _ <- validate_int v lo hi ;; ret v end.

Definition rdtci_make (cfg : config) (sub : Z) (a : dtcargs) : M req :=
  _ <- check_subfunction_valid (std cfg) sub ;;
  let sev0 := match da_severity a with Some v => Some (if da_sev_obj a then Z.land v 224 else v) | None => None end in
  sev <- (match da_class a with
          | None => ret sev0
          | Some c => match sev0 with None => fail EValue | Some v => ret (Some (Z.lor v (Z.land c 31))) end
          end) ;;
  d <- (if in_group "request_subfn_no_param" sub then ret None
        else if in_group "request_subfn_status_mask" sub then
          m <- need (da_status a) 0 255 ;; b <- pack_B m ;; ret (Some b)
        else if in_group "request_subfn_mask_record_plus_snapshot_record_number" sub then
          dt <- need (da_dtc a) 0 16777215 ;; r <- need (da_snap a) 0 255 ;;
          x <- pack_dtc dt ;; y <- pack_B r ;; ret (Some (x ++ y))
        else if in_group "request_subfn_mask_record_plus_snapshot_record_number_plus_memory_selection" sub then
          dt <- need (da_dtc a) 0 16777215 ;; r <- need (da_snap a) 0 255 ;; ms <- need (da_memsel a) 0 255 ;;
          x <- pack_dtc dt ;; y <- pack_B r ;; z <- pack_B ms ;; ret (Some (x ++ y ++ z))
        else if in_group "request_subfn_snapshot_record_number" sub then
          r <- need (da_snap a) 0 255 ;; y <- pack_B r ;; ret (Some y)
        else if in_group "request_subfn_mask_record_plus_extdata_record_number" sub then
          dt <- need (da_dtc a) 0 16777215 ;; r <- need (da_ext a) 0 255 ;;
          x <- pack_dtc dt ;; y <- pack_B r ;; ret (Some (x ++ y))
        else if in_group "request_subfn_mask_record_plus_extdata_record_number_plus_memory_selection" sub then
          dt <- need (da_dtc a) 0 16777215 ;; ms <- need (da_memsel a) 0 255 ;; r <- need (da_ext a) 0 255 ;;
          x <- pack_dtc dt ;; y <- pack_B r ;; z <- pack_B ms ;; ret (Some (x ++ y ++ z))
        else if in_group "request_subfn_severity_plus_status_mask" sub then
          m <- need (da_status a) 0 255 ;; sv <- need sev 0 255 ;;
          x <- pack_B sv ;; y <- pack_B m ;; ret (Some (x ++ y))
        else if in_group "request_subfn_mask_record" sub then
          dt <- need (da_dtc a) 0 16777215 ;; x <- pack_dtc dt ;; ret (Some x)
        else if in_group "request_subfn_status_mask_plus_memory_selection" sub then
          ms <- need (da_memsel a) 0 255 ;; m <- need (da_status a) 0 255 ;;
          x <- pack_B m ;; y <- pack_B ms ;; ret (Some (x ++ y))
        else if sub =? 22 then
          r <- need (da_ext a) 0 239 ;; y <- pack_B r ;; ret (Some y)
        else if sub =? 66 then
          m <- need (da_status a) 0 255 ;; sv <- need sev 0 255 ;; g <- need (da_fgid a) 0 254 ;;
          x <- pack_B g ;; y <- pack_B m ;; z <- pack_B sv ;; ret (Some (x ++ y ++ z))
        else if sub =? 85 then
          g <- need (da_fgid a) 0 254 ;; x <- pack_B g ;; ret (Some x)
        else ret None) ;;
  mk_req "ReadDTCInformation" (Some sub) d.

(* ---- decoded structures ------------------------------------------------------------------------------ *)
Inductive snapshot := SnapNum (rec : Z) | SnapDid (rec did : Z) (raw : bytes).
Record dtc := { d_id : Z; d_status : Z; d_severity : Z; d_funit : Z; d_fault : Z;
                d_snaps : list snapshot; d_ext : list (Z * bytes) }.
Definition mk_dtc (id : Z) : dtc :=
  {| d_id := id; d_status := 0; d_severity := 0; d_funit := -1; d_fault := -1; d_snaps := []; d_ext := [] |}.
Definition dtc_with (d : dtc) (status sev funit fault : Z) (snaps : list snapshot) (ext : list (Z * bytes)) : dtc :=
  {| d_id := d_id d; d_status := status; d_severity := sev; d_funit := funit; d_fault := fault; d_snaps := snaps; d_ext := ext |}.

Record dtcdata := { r_echo : Z; r_memsel : Z; r_status_av : Z; r_sev_av : Z; r_format : Z; r_fgid : Z;
                    r_count : Z; r_dtcs : list dtc }.
Definition dd0 (echo : Z) : dtcdata :=
  {| r_echo := echo; r_memsel := -1; r_status_av := -1; r_sev_av := -1; r_format := -1; r_fgid := -1; r_count := 0; r_dtcs := [] |}.

Definition enc_snapshot (s : snapshot) : list Z :=
  match s with SnapNum r => [0; r] | SnapDid r d raw => 1 :: r :: d :: enc_bytes raw end.
Definition enc_dtc (d : dtc) : list Z :=
  [d_id d; d_status d; d_severity d; d_funit d; d_fault d]
  ++ enc_list enc_snapshot (d_snaps d) ++ enc_list (fun '(r, raw) => r :: enc_bytes raw) (d_ext d).
Definition enc_dtcdata (x : dtcdata) : sdata :=
  [r_echo x; r_memsel x; r_status_av x; r_sev_av x; r_format x; r_fgid x; r_count x] ++ enc_list enc_dtc (r_dtcs x).

Definition sub3 (l : bytes) : Z := be_dec (firstn 3 l).
Definition at_ (l : bytes) (i : nat) : Z := nth i l 0.

(* group 1: availability mask + fixed-size DTC records (4 bytes, or 6 with severity and functional unit) *)
Fixpoint loop_records (fuel : nat) (pc : pcfg) (sub : Z) (with_sev : bool) (d : bytes) (cur : nat) (acc : list dtc)
  : M (list dtc) :=
  match fuel with
  | O => fail EOutOfFuel
  | S k =>
    let n := List.length d in
    let size := if with_sev then 6%nat else 4%nat in
    if Nat.leb n cur then ret acc
    else if Nat.ltb n (cur + size) then
      if pc_tol pc && all_zero (skipn cur d) then ret acc
      else if negb (sub =? 9) || Nat.eqb cur 2 then fail EInvalid
      else loop_records k pc sub with_sev d (cur + size) acc
    else
      let rec := firstn size (skipn cur d) in
      if all_zero rec && pc_ign pc then loop_records k pc sub with_sev d (cur + size) acc
      else
        let x := if with_sev
                 then dtc_with (mk_dtc (sub3 (skipn 2 rec))) (at_ rec 5) (Z.land (at_ rec 0) 224) (at_ rec 1) (-1) [] []
                 else dtc_with (mk_dtc (sub3 rec)) (at_ rec 3) 0 (-1) (-1) [] [] in
        loop_records k pc sub with_sev d (cur + size) (acc ++ [x])
  end.

(* group 2: (DTC, fault counter)* or (DTC, snapshot record number)* ; snapshot numbers accumulate per DTC *)
Fixpoint add_snapnum (id rec : Z) (l : list dtc) : option (list dtc) :=
  match l with
  | [] => None
  | x :: tl => if d_id x =? id then Some (dtc_with x (d_status x) (d_severity x) (d_funit x) (d_fault x) (d_snaps x ++ [SnapNum rec]) (d_ext x) :: tl)
               else match add_snapnum id rec tl with Some tl' => Some (x :: tl') | None => None end
  end.
(* fault counter: every record is its own Dtc; snapshot identification: record numbers accumulate per DTC id *)
Fixpoint loop_pairs (fuel : nat) (pc : pcfg) (fault : bool) (d : bytes) (cur : nat) (acc : list dtc) : M (list dtc) :=
  match fuel with
  | O => fail EOutOfFuel
  | S k =>
    let n := List.length d in
    if Nat.leb n cur then ret acc
    else if Nat.ltb n (cur + 4) then
      if pc_tol pc && all_zero (skipn cur d) then ret acc else fail EInvalid
    else
      let rec := firstn 4 (skipn cur d) in
      if all_zero rec && pc_ign pc then loop_pairs k pc fault d (cur + 4) acc
      else
        let id := sub3 rec in
        let acc' :=
          if fault then acc ++ [dtc_with (mk_dtc id) 0 0 (-1) (at_ rec 3) [] []]
          else match add_snapnum id (at_ rec 3) acc with
               | Some l => l
               | None => acc ++ [dtc_with (mk_dtc id) 0 0 (-1) (-1) [SnapNum (at_ rec 3)] []]
               end in
        loop_pairs k pc fault d (cur + 4) acc'
  end.

(* the DIDs of one snapshot record: (did of snap_did bytes, codec-length data) x ndid *)
Fixpoint loop_dids (ndid : nat) (pc : pcfg) (recnum : Z) (d : bytes) (cur : nat) (acc : list snapshot)
  : M (list snapshot * nat) :=
  match ndid with
  | O => ret (acc, cur)
  | S k =>
    let ds := Z.to_nat (pc_snap pc) in
    let rem := skipn cur d in
    if Nat.ltb (List.length rem) ds then fail EInvalid
    else
      let did := be_dec (firstn ds rem) in
      sh <- fetch_codec pc did ;;
      let size := if sh <? 0 then (List.length rem - ds)%nat else Z.to_nat sh in
        if Nat.ltb (List.length rem - ds) size then fail EInvalid
        else loop_dids k pc recnum d (cur + ds + size) (acc ++ [SnapDid recnum did (firstn size (skipn ds rem))])
  end.

(* group 4: one DTC, then (record number, number of DIDs, DIDs)* *)
Fixpoint loop_snap_by_dtc (fuel : nat) (pc : pcfg) (d : bytes) (cur : nat) (acc : list snapshot) : M (list snapshot) :=
  match fuel with
  | O => fail EOutOfFuel
  | S k =>
    let n := List.length d in
    if Nat.leb n cur then ret acc
    else
      let rem := skipn cur d in
      if pc_tol pc && all_zero rem then ret acc
      else if Nat.ltb (List.length rem) 2 then fail EInvalid
      else
        let recnum := at_ rem 0 in let ndid := at_ rem 1 in
        if ndid =? 0 then fail EInvalid
        else if Nat.ltb (List.length rem) (2 + Z.to_nat (pc_snap pc)) then fail EInvalid
        else
          '(snaps, cur') <- loop_dids (Z.to_nat ndid) pc recnum d (cur + 2) acc ;;
          loop_snap_by_dtc k pc d cur' snaps
  end.

(* group 5: (record number, DTC, status, number of DIDs, DIDs)* *)
Fixpoint loop_snap_by_rec (fuel : nat) (pc : pcfg) (d : bytes) (cur : nat) (acc : list dtc) : M (list dtc) :=
  match fuel with
  | O => fail EOutOfFuel
  | S k =>
    let n := List.length d in
    if Nat.leb n cur then ret acc
    else
      let rem := skipn cur d in
      if all_zero rem && pc_tol pc then ret acc
      else if Nat.eqb (List.length rem) 1 || (pc_tol pc && all_zero (skipn 1 rem)) then ret acc
      else if Nat.ltb (List.length rem) 6 then fail EInvalid
      else
        let recnum := at_ rem 0 in
        let x := dtc_with (mk_dtc (sub3 (skipn 1 rem))) (at_ rem 4) 0 (-1) (-1) [] [] in
        let ndid := at_ rem 5 in
        let rem2 := skipn (cur + 6) d in
        if ndid =? 0 then fail EInvalid
        else if Nat.ltb (List.length rem2) (Z.to_nat (pc_snap pc)) then fail EInvalid
        else if pc_tol pc && all_zero rem2 then ret acc
        else
          '(snaps, cur') <- loop_dids (Z.to_nat ndid) pc recnum d (cur + 6) [] ;;
          loop_snap_by_rec k pc d cur' (acc ++ [dtc_with x (d_status x) 0 (-1) (-1) snaps []])
  end.

(* group 6: one DTC, then (record number <> 0, data(size))* *)
Fixpoint loop_ext_by_dtc (fuel : nat) (pc : pcfg) (size : nat) (d : bytes) (cur : nat) (acc : list (Z * bytes))
  : M (list (Z * bytes)) :=
  match fuel with
  | O => fail EOutOfFuel
  | S k =>
    if Nat.leb (List.length d) cur then ret acc
    else
      let rem := skipn cur d in
      let recnum := at_ rem 0 in
      if recnum =? 0 then (if all_zero rem && pc_tol pc then ret acc else fail EInvalid)
      else
        let rem2 := skipn (cur + 1) d in
        if Nat.ltb (List.length rem2) size then fail EInvalid
        else loop_ext_by_dtc k pc size d (cur + 1 + size) (acc ++ [(recnum, firstn size rem2)])
  end.

(* group 7: record number, then (DTC, status, data(size))* with distinct DTCs *)
Fixpoint loop_ext_by_rec (fuel : nat) (pc : pcfg) (size : nat) (recnum : Z) (d : bytes) (cur : nat) (acc : list dtc)
  : M (list dtc) :=
  match fuel with
  | O => fail EOutOfFuel
  | S k =>
    let n := List.length d in
    if Nat.eqb cur n then ret acc
    else
      let rem := skipn cur d in
      let to_read := Nat.leb (size + 4) (List.length rem) && negb (pc_ign pc) in
      if all_zero rem && negb to_read then (if pc_tol pc then ret acc else fail EInvalid)
      else if Nat.ltb (n - cur) 4 then fail EInvalid
      else
        let id := sub3 rem in
        if existsb (fun x => d_id x =? id) acc then fail EInvalid
        else if Nat.ltb (n - (cur + 4)) size then fail EInvalid
        else loop_ext_by_rec k pc size recnum d (cur + 4 + size)
               (acc ++ [dtc_with (mk_dtc id) (at_ rem 3) 0 (-1) (-1) [] [(recnum, firstn size (skipn 4 rem))]])
  end.

(* group 8 (WWH-OBD): (severity, DTC, status)* in 5-byte records, honouring both padding settings *)
Fixpoint loop_wwh (fuel : nat) (pc : pcfg) (d : bytes) (acc : list dtc) : M (list dtc) :=
  match fuel with
  | O => fail EOutOfFuel
  | S k =>
    match d with
    | [] => ret acc
    | sv :: i2 :: i1 :: i0 :: stt :: tl =>
      if all_zero [sv; i2; i1; i0; stt] && pc_ign pc then loop_wwh k pc tl acc
      else loop_wwh k pc tl (acc ++ [dtc_with (mk_dtc (be_dec [i2; i1; i0])) stt (Z.land sv 224) (-1) (-1) [] []])
    | _ => if pc_tol pc && all_zero d then ret acc else fail EInvalid
    end
  end.

Definition ext_size_of (cfg : config) (a : dtcargs) : M nat :=
  match (match da_ext_size a with Some v => Some v | None => ext_size cfg end) with
  | None => fail EValue
  | Some v => _ <- validate_int v 0 4095 ;; ret (Z.to_nat v)
  end.

(* interpret_response: (subfunction echo if the response has one, result) *)
Definition rdtci_decode (cfg : config) (sub : Z) (a : dtcargs) (d : bytes) : M dtcdata :=
  _ <- check_subfunction_valid (std cfg) sub ;;
  match d with
  | [] => fail EInvalid
  | echo :: _ =>
    let n := List.length d in
    let fuel := S n in
    let memsel := in_group "subfunctions_with_memory_selection" sub in
    let base := dd0 echo in
    let with_ (ms sa sva fmt fg cnt : Z) (l : list dtc) : dtcdata :=
      {| r_echo := echo; r_memsel := ms; r_status_av := sa; r_sev_av := sva; r_format := fmt; r_fgid := fg;
         r_count := cnt; r_dtcs := l |} in
    if in_group "response_subfn_dtc_availability_mask_plus_dtc_record" sub
       || in_group "response_subfn_dtc_availability_mask_plus_dtc_record_with_severity" sub then
      let with_sev := negb (in_group "response_subfn_dtc_availability_mask_plus_dtc_record" sub) in
      if Nat.ltb n (if memsel then 3 else 2) then fail EInvalid
      else
        let cur := if memsel then 2%nat else 1%nat in
        l <- loop_records fuel (pc_of cfg) sub with_sev d (S cur) [] ;;
        ret (with_ (if memsel then at_ d 1 else -1) (at_ d cur) (-1) (-1) (-1) (Z.of_nat (List.length l)) l)
    else if in_group "response_subfn_dtc_plus_fault_counter" sub || in_group "response_subfn_dtc_plus_sapshot_record" sub then
      l <- loop_pairs fuel (pc_of cfg) (in_group "response_subfn_dtc_plus_fault_counter" sub) d 1 [] ;;
      ret (with_ (-1) (-1) (-1) (-1) (-1) (Z.of_nat (List.length l)) l)
    else if in_group "response_subfn_number_of_dtc" sub then
      if Nat.ltb n 5 then fail EInvalid
      else ret (with_ (-1) (at_ d 1) (-1) (at_ d 2) (-1) (be_dec (firstn 2 (skipn 3 d))) [])
    else if in_group "response_sbfn_dtc_status_snapshots_records" sub then
      if Nat.ltb n (if memsel then 6 else 5) then fail EInvalid
      else
        let cur := if memsel then 2%nat else 1%nat in
        let x := dtc_with (mk_dtc (sub3 (skipn cur d))) (at_ d (cur + 3)) 0 (-1) (-1) [] [] in
        _ <- validate_int (snap_did cfg) 1 8 ;;
        snaps <- loop_snap_by_dtc fuel (pc_of cfg) d (cur + 4) [] ;;
        ret (with_ (if memsel then at_ d 1 else -1) (-1) (-1) (-1) (-1) 1 [dtc_with x (d_status x) 0 (-1) (-1) snaps []])
    else if in_group "response_sbfn_dtc_status_snapshots_records_record_first" sub then
      _ <- validate_int (snap_did cfg) 1 8 ;;
      if Nat.ltb n 2 then fail EInvalid
      else l <- loop_snap_by_rec fuel (pc_of cfg) d 1 [] ;; ret (with_ (-1) (-1) (-1) (-1) (-1) (Z.of_nat (List.length l)) l)
    else if in_group "response_subfn_mask_record_plus_extdata" sub then
      size <- ext_size_of cfg a ;;
      if Nat.ltb n (if memsel then 6 else 5) then fail EInvalid
      else
        let cur := if memsel then 2%nat else 1%nat in
        let x := dtc_with (mk_dtc (sub3 (skipn cur d))) (at_ d (cur + 3)) 0 (-1) (-1) [] [] in
        ext <- loop_ext_by_dtc fuel (pc_of cfg) size d (cur + 4) [] ;;
        ret (with_ (if memsel then at_ d 1 else -1) (-1) (-1) (-1) (-1) 1 [dtc_with x (d_status x) 0 (-1) (-1) [] ext])
    else if in_group "response_subfn_record_number_plus_dtc_mask_plus_extdata" sub then
      size <- ext_size_of cfg a ;;
      if Nat.ltb n 2 then fail EInvalid
      else if 239 <? at_ d 1 then fail EInvalid
      else l <- loop_ext_by_rec fuel (pc_of cfg) size (at_ d 1) d 2 [] ;;
           ret (with_ (-1) (-1) (-1) (-1) (-1) (Z.of_nat (List.length l)) l)
    else if (sub =? 66) || (sub =? 85) then
      let hdr := if sub =? 66 then 5%nat else 4%nat in
      if Nat.ltb n hdr then fail EInvalid
      else
        let fg := at_ d 1 in
        let fmt := at_ d (hdr - 1) in
        if 254 <? fg then fail EInvalid
        else if negb ((fmt =? 4) || (fmt =? 2)) then fail EInvalid
        else l <- loop_wwh fuel (pc_of cfg) (skipn hdr d) [] ;;
             ret (with_ (-1) (at_ d 2) (if sub =? 66 then Z.land (at_ d 3) 224 else -1) fmt fg (Z.of_nat (List.length l)) l)
    else ret base
  end.

Definition snap_rec_of (s : snapshot) : Z := match s with SnapNum r => r | SnapDid r _ _ => r end.

(* the checks of Client.read_dtc_information after decoding *)
Definition rdtci_client_checks (sub : Z) (a : dtcargs) (x : dtcdata) : M unit :=
  _ <- (if (sub =? 4) || (sub =? 24) then
          match r_dtcs x, da_dtc a with
          | [one], Some want => guard (d_id one =? want) EUnexpected
          | _, _ => ret tt
          end
        else ret tt) ;;
  _ <- (if (sub =? 5) || (sub =? 4) || (sub =? 24) then
          match r_dtcs x, da_snap a with
          | [one], Some want => if want =? 255 then ret tt
                                else guard (forallb (fun s => snap_rec_of s =? want) (d_snaps one)) EUnexpected
          | _, _ => ret tt
          end
        else ret tt) ;;
  _ <- (if (sub =? 6) || (sub =? 16) || (sub =? 25) then
          match r_dtcs x, da_ext a with
          | [one], Some want => if want <? 240 then guard (forallb (fun '(r, _) => r =? want) (d_ext one)) EUnexpected else ret tt
          | _, _ => ret tt
          end
        else ret tt) ;;
  _ <- (if (sub =? 23) || (sub =? 24) || (sub =? 25) then
          match da_memsel a with Some ms => guard (ms =? r_memsel x) EUnexpected | None => ret tt end
        else ret tt) ;;
  _ <- (if sub =? 22 then
          match da_ext a with
          | Some want => guard (forallb (fun dt => forallb (fun '(r, _) => r =? want) (d_ext dt)) (r_dtcs x)) EUnexpected
          | None => ret tt
          end
        else ret tt) ;;
  (if (sub =? 85) || (sub =? 66) then
     match da_fgid a with Some g => guard (g =? r_fgid x) EUnexpected | None => ret tt end
   else ret tt).

Definition rdtci_interpret (cfg : config) (sub : Z) (a : dtcargs) (r : resp) : M sdata :=
  let d := p_data r in
  match rdtci_decode cfg sub a d with
  | inl e =>
    match d with
    | [] => fail e
    | echo :: _ => if echo =? sub then fail e else fail EUnexpected
    end
  | inr x =>
    _ <- guard (r_echo x =? sub) EUnexpected ;;
    _ <- rdtci_client_checks sub a x ;;
    ret (enc_dtcdata x)
  end.

(* note: the extended-data size, needed only by the decoder, is validated after the request was sent (the
   existing test suite pins this order); see known_findings.json for C07 *)
Definition read_dtc_information (cfg : config) (st : cstate) (sub : Z) (a : dtcargs) (now : Z) (s : sched) : fres :=
  single_request cfg st (rdtci_make cfg sub a) (rdtci_interpret cfg sub a) no_post now s.
