(* Single entry point of the extracted model: run_case entry ints blobs = canonical result. *)
From Coq Require Import ZArith List Bool String.
From UDS Require Import Lib.Bytes Lib.ErrM Lib.PyOps Model.Message.
Import ListNotations.
Open Scope string_scope.
Open Scope Z_scope.
Open Scope list_scope.

Definition zopt (v : Z) : option Z := if v <? 0 then None else Some v.
Definition nthZ (l : list Z) (i : nat) : Z := nth i l 0.
Definition nthB (l : list bytes) (i : nat) : bytes := nth i l [].
Definition svc_of (id : Z) : option svc := if id <? 0 then None else from_request_id id.

Definition entry_message (e : Z) (a : list Z) (b : list bytes) : list Z :=
  if e =? 1701 then
    (* Request(service, sub, spr, data).get_payload(ov) *)
    let data := if nthZ a 3 =? 1 then Some (nthB b 0) else None in
    let ov := if nthZ a 4 =? 0 then Some false else if nthZ a 4 =? 1 then Some true else None in
    enc_M enc_bytes (r <- mk_request (svc_of (nthZ a 0)) (zopt (nthZ a 1)) (nthZ a 2 =? 1) data ;;
                     request_payload r ov)
  else if e =? 1702 then enc_req (parse_request (nthB b 0))
  else if e =? 1703 then
    let data := if nthZ a 2 =? 1 then Some (nthB b 0) else None in
    match mk_response (svc_of (nthZ a 0)) (zopt (nthZ a 1)) data with
    | inl er => [err_code er]
    | inr r => 0 :: enc_resp r ++ enc_M enc_bytes (response_payload r)
    end
  else if e =? 1704 then
    let r := parse_response (nthB b 0) in enc_resp r ++ enc_M enc_bytes (response_payload r)
  else if e =? 1705 then [enc_svc (from_request_id (nthZ a 0)); enc_svc (from_response_id (nthZ a 0))]
  else [-999].
