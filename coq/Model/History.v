(* Histories of client operations (context-manager enter/exit, calls, configuration changes) and their
   decoding from the flat case format of the correspondence driver. *)
From Coq Require Import ZArith List Bool String.
From UDS Require Import Lib.Bytes Lib.ErrM Lib.PyOps Model.Message Model.Client Model.Services Model.Helpers
  Model.MemLoc Model.Svc_Simple Model.Svc_Memory Model.Svc_Did Model.Svc_File Model.Svc_Dtc.
Import ListNotations.
Open Scope Z_scope.
Open Scope list_scope.

Inductive call :=
  | CRaw (sid sub : Z) (spr hasdata : bool) (data : bytes) (timeout : Z)
  | CChangeSession (s : Z)
  | CRequestSeed (level : Z) (data : bytes)
  | CSendKey (level : Z) (key : bytes)
  | CUnlock (level : Z) (params : bytes)
  | CTesterPresent
  | CEcuReset (t : Z)
  | CClearDtc (group : Z) (memsel : option Z)
  | CRoutine (rid ct : Z) (data : option bytes)
  | CAccessTiming (at_ : Z) (rec : option bytes)
  | CCommControl (ct : Z) (a : ctarg) (node : option Z)
  | CTransferData (seq : Z) (data : option bytes)
  | CTransferExit (data : option bytes)
  | CLinkControl (ct : Z) (b : option (Z * Z))        (* Baudrate(rate, type) built by the caller *)
  | CControlDtc (stype : Z) (data : option bytes)
  | CReadMem (addr size : Z) (af sf : option Z)
  | CWriteMem (addr size : Z) (af sf : option Z) (data : bytes)
  | CUpDown (upload : bool) (addr size : Z) (af sf : option Z) (d : option (Z * Z))
  | CDefineDid (did : Z) (d : diddef)
  | CClearDid (did : option Z)
  | CReadDids (l : list Z)
  | CReadDidFirst (l : list Z)
  | CTestDid (l : list Z)
  | CWriteDid (did : Z) (v : bytes)
  | CIoControl (did : Z) (cp : option Z) (values : option bytes) (masks : maskarg)
  | CFileTransfer (moop : Z) (path : list Z) (d : option (Z * Z)) (f : fsarg)
  | CAuth (task : Z) (a : authargs)
  | CReadDtc (sub : Z) (a : dtcargs).

Definition run_inner (cfg : config) (st : cstate) (c : call) (now : Z) (s : sched) : fres :=
  match c with
  | CRaw sid sub spr hd data to => raw_request cfg st sid sub spr hd data to now s
  | CChangeSession x => change_session cfg st x now s
  | CRequestSeed l d => request_seed cfg st l d now s
  | CSendKey l k => send_key cfg st l k now s
  | CUnlock l p => unlock_security_access cfg st l p now s
  | CTesterPresent => tester_present cfg st now s
  | CEcuReset t => ecu_reset cfg st t now s
  | CClearDtc g m => clear_dtc cfg st g m now s
  | CRoutine rid ct d => routine_control cfg st rid ct d now s
  | CAccessTiming at_ rec => access_timing_parameter cfg st at_ rec now s
  | CCommControl ct a node => communication_control cfg st ct a node now s
  | CTransferData seq d => transfer_data cfg st seq d now s
  | CTransferExit d => request_transfer_exit cfg st d now s
  | CLinkControl ct b =>
    link_control cfg st ct (match b with Some (r, t) => (x <- mk_baud r t ;; ret (Some x)) | None => ret None end) now s
  | CControlDtc t d => control_dtc_setting cfg st t d now s
  | CReadMem a sz af sf => read_memory_by_address cfg st a sz af sf now s
  | CWriteMem a sz af sf d => write_memory_by_address cfg st a sz af sf d now s
  | CUpDown up a sz af sf d => request_upload_download cfg st up a sz af sf d now s
  | CDefineDid did d => dynamically_define_did cfg st did d now s
  | CClearDid did => do_clear_dynamically_defined_did cfg st did now s
  | CReadDids l => read_data_by_identifier cfg st l now s
  | CReadDidFirst l => read_data_by_identifier_first cfg st l now s
  | CTestDid l => test_data_identifier cfg st l now s
  | CWriteDid did v => write_data_by_identifier cfg st did v now s
  | CIoControl did cp v m => io_control cfg st did cp v m now s
  | CFileTransfer moop path d f => request_file_transfer cfg st moop path d f now s
  | CAuth task a => authentication cfg st task a now s
  | CReadDtc sub a => read_dtc_information cfg st sub a now s
  end.

(* a decorated client method as the user calls it (send_request itself is not decorated) *)
Definition is_decorated (c : call) : bool := match c with CRaw _ _ _ _ _ _ => false | _ => true end.

Definition run_call (cfg : config) (st : cstate) (c : call) (now : Z) (s : sched)
  : outcome (option iresp) * cstate * Z * sched * list ev :=
  let '(res, st', t, s', tr) := run_inner cfg st c now s in
  (if is_decorated c then deliver cfg res
   else match res with COk a => ORet a | CErr e r => ORaise e r end, st', t, s', tr).

Inductive op :=
  | OSprEnter (wait_nrc : option bool)   (* with client.suppress_positive_response(wait_nrc=..): ; None = the bare form, without a call *)
  | OSprExit
  | OOvEnter (o : override)          (* with client.payload_override(..): *)
  | OOvExit
  | OCall (c : call) (replies : list (Z * item))   (* arrival times relative to the start of the call *)
  | OCallSendFault (c : call) (code : Z)           (* the same call on a connection whose send() fails after writing *)
  | OSetCfg (slot v : Z)
  | OAdvance (dt : Z).

Definition oz (v : Z) : option Z := if v <? 0 then None else Some v.
Definition zb (v : Z) : bool := v =? 1.

(* configuration vector: 17 base slots, then [nd; (did, shape)*nd], then [nio; (did, shape, has_mask, mask_size_or_-1, nmask, masks...)*nio] *)
Fixpoint decode_dids (n : nat) (a : list Z) : list (Z * Z) :=
  match n, a with
  | S k, did :: sh :: tl => (did, sh) :: decode_dids k tl
  | _, _ => []
  end.
Fixpoint decode_ios (n : nat) (a : list Z) : list (Z * (Z * bool * list Z * option Z)) :=
  match n, a with
  | S k, did :: sh :: hm :: ms :: nm :: tl =>
    (did, (sh, hm =? 1, firstn (Z.to_nat nm) tl, if ms <? 0 then None else Some ms)) :: decode_ios k (skipn (Z.to_nat nm) tl)
  | _, _ => []
  end.
Definition cfg_of (a : list Z) : config :=
  let g i := nth i a 0 in
  {| ex_neg := zb (g 0%nat); ex_inv := zb (g 1%nat); ex_unx := zb (g 2%nat);
     tol_pad := zb (g 3%nat); ign_zero := zb (g 4%nat); use_srv := zb (g 5%nat);
     std := g 6%nat; req_to := oz (g 7%nat); p2 := g 8%nat; p2s := g 9%nat; has_cb := zb (g 10%nat);
     srv_addr := oz (g 11%nat); srv_size := oz (g 12%nat); snap_did := g 13%nat; ext_size := oz (g 14%nat);
     algo := g 15%nat; algo_prm := g 16%nat;
     dids := decode_dids (Z.to_nat (g 17%nat)) (skipn 18 a);
     ios := decode_ios (Z.to_nat (nth (18 + 2 * Z.to_nat (g 17%nat)) a 0)) (skipn (19 + 2 * Z.to_nat (g 17%nat)) a) |}.

Fixpoint set_nth (l : list Z) (i : nat) (v : Z) : list Z :=
  match l, i with
  | [], _ => []
  | _ :: tl, O => v :: tl
  | x :: tl, S k => x :: set_nth tl k v
  end.

Definition enc_sdata_resp (o : option iresp) : list Z :=
  match o with
  | None => [0]
  | Some (r, sd) =>
    match sd with
    | m :: v => if m =? VALUE_MARK then 2 :: v else 1 :: enc_resp_obs r ++ enc_bytes sd
    | [] => 1 :: enc_resp_obs r ++ enc_bytes sd
    end
  end.

Fixpoint upto_first_send (tr : list ev) : option (list ev) :=
  match tr with
  | [] => None
  | EvS p :: _ => Some [EvS p]
  | e :: tl => match upto_first_send tl with Some l => Some (e :: l) | None => None end
  end.

(* one operation: (observable output, configuration vector, client state, clock) *)
Definition step_op (cfgv : list Z) (st : cstate) (now : Z) (o : op) : list Z * list Z * cstate * Z :=
  match o with
  | OSprEnter w => ([], cfgv, spr_enter (match w with Some b => spr_call st b | None => st end), now)
  | OSprExit => ([], cfgv, spr_exit st, now)
  | OOvEnter ovr => ([], cfgv, ov_enter st ovr, now)
  | OOvExit => ([], cfgv, ov_exit st, now)
  | OSetCfg slot v =>
    (* set_config stores the value, then validate_config looks at the whole configuration: only 2006 / 2013 / 2020 are editions
       (ConfigError otherwise; the rejected value stays in the configuration, so every later change is refused as well until the
       edition is set to a valid one) *)
    let cfgv' := set_nth cfgv (Z.to_nat slot) v in
    let e := nth 6 cfgv' 0 in
    ((if negb ((e =? 2006) || (e =? 2013) || (e =? 2020)) then [2; err_code EConfig] else []), cfgv', st, now)
  | OAdvance dt => ([], cfgv, st, now + dt)
  | OCallSendFault c code =>
    (* the connection's send() raises an error of class `code` after the frame has been written: the call ends there, with
       that error; nothing is read, nothing is sent again, the client state is untouched *)
    let '(out, st', t, _, tr) := run_call (cfg_of cfgv) st c now [] in
    match upto_first_send tr with
    | Some pre => (2 :: code :: 0 :: enc_trace pre ++ [now], cfgv, st, now)
    | None => (enc_outcome enc_sdata_resp out ++ enc_trace tr ++ [t], cfgv, st', t)
    end
  | OCall c replies =>
    let s := map (fun '(d, it) => (now + d, it)) replies in
    let '(out, st', t, _, tr) := run_call (cfg_of cfgv) st c now s in
    (enc_outcome enc_sdata_resp out ++ enc_trace tr ++ [t], cfgv, st', t)
  end.

(* run a history; the observable is, per call: outcome, trace, time after the call; then the final state *)
Fixpoint run_history (cfgv : list Z) (st : cstate) (now : Z) (ops : list op) : list Z :=
  match ops with
  | [] => enc_state st
  | o :: rest =>
    let '(out, cfgv', st', now') := step_op cfgv st now o in
    out ++ run_history cfgv' st' now' rest
  end.

(* the client state after a history *)
Fixpoint state_after (cfgv : list Z) (st : cstate) (now : Z) (ops : list op) : cstate :=
  match ops with
  | [] => st
  | o :: rest => let '(_, cfgv', st', now') := step_op cfgv st now o in state_after cfgv' st' now' rest
  end.

(* ---- decoding of the flat case ------------------------------------------------------------------- *)
(* ints: cfg (CFG_LEN) ++ [nops] ++ ops ; blobs consumed in order.
   op: 0 w | 1 | 2 kind (blobs: pre post) | 3 | 4 callid nargs args.. ncallblobs nframes (delta kind)* | 5 slot v | 6 dt *)
Definition take_blobs (n : nat) (b : list bytes) : list bytes * list bytes := (firstn n b, skipn n b).

Definition oi (a : list Z) (i : nat) : option Z := if nth i a 0 =? 1 then Some (nth (S i) a 0) else None.
Definition ob (a : list Z) (i : nat) (b : list bytes) (j : nat) : option bytes := if nth i a 0 =? 1 then Some (nth j b []) else None.
Fixpoint triples (n : nat) (a : list Z) : list (Z * Z * Z) :=
  match n, a with S k, x :: y :: z :: tl => (x, y, z) :: triples k tl | _, _ => [] end.
Fixpoint memlocs (n : nat) (a : list Z) : list (Z * Z * option Z * option Z) :=
  match n, a with
  | S k, x :: y :: ha :: af :: hs :: sf :: tl =>
    (x, y, (if ha =? 1 then Some af else None), (if hs =? 1 then Some sf else None)) :: memlocs k tl
  | _, _ => []
  end.
Fixpoint pairs_zb (n : nat) (a : list Z) : list (Z * bool) :=
  match n, a with S k, x :: y :: tl => (x, y =? 1) :: pairs_zb k tl | _, _ => [] end.

Definition decode_call (id : Z) (a : list Z) (b : list bytes) : call :=
  let g i := nth i a 0 in
  let h i := nth i b [] in
  if id =? 1 then CRaw (g 0%nat) (g 1%nat) (zb (g 2%nat)) (zb (g 3%nat)) (h 0%nat) (g 4%nat)
  else if id =? 2 then CChangeSession (g 0%nat)
  else if id =? 3 then CRequestSeed (g 0%nat) (h 0%nat)
  else if id =? 4 then CSendKey (g 0%nat) (h 0%nat)
  else if id =? 5 then CUnlock (g 0%nat) (h 0%nat)
  else if id =? 6 then CTesterPresent
  else if id =? 7 then CEcuReset (g 0%nat)
  else if id =? 8 then CClearDtc (g 0%nat) (oi a 1)
  else if id =? 9 then CRoutine (g 0%nat) (g 1%nat) (ob a 2 b 0)
  else if id =? 10 then CAccessTiming (g 0%nat) (ob a 1 b 0)
  else if id =? 11 then
    CCommControl (g 0%nat) (if g 1%nat =? 0 then CtObj (g 2%nat) (zb (g 3%nat)) (zb (g 4%nat)) else if g 1%nat =? 2 then CtBytes (h 0%nat) else CtInt (g 2%nat)) (oi a 5)
  else if id =? 13 then CTransferData (g 0%nat) (ob a 1 b 0)
  else if id =? 14 then CTransferExit (ob a 0 b 0)
  else if id =? 15 then CLinkControl (g 0%nat) (if g 1%nat =? 1 then Some (g 2%nat, g 3%nat) else None)
  else if id =? 16 then CControlDtc (g 0%nat) (ob a 1 b 0)
  else if id =? 17 then CReadMem (g 0%nat) (g 1%nat) (oi a 2) (oi a 4)
  else if id =? 18 then CWriteMem (g 0%nat) (g 1%nat) (oi a 2) (oi a 4) (h 0%nat)
  else if id =? 19 then CUpDown (zb (g 0%nat)) (g 1%nat) (g 2%nat) (oi a 3) (oi a 5)
                                (if g 7%nat =? 1 then Some (g 8%nat, g 9%nat) else None)
  else if id =? 20 then
    CDefineDid (g 0%nat) (if g 1%nat =? 1 then DefByDid (triples (Z.to_nat (g 2%nat)) (skipn 3 a))
                          else DefByMem (memlocs (Z.to_nat (g 2%nat)) (skipn 3 a)))
  else if id =? 21 then CClearDid (oi a 0)
  else if id =? 22 then CReadDids (firstn (Z.to_nat (g 0%nat)) (skipn 1 a))
  else if id =? 23 then CReadDidFirst (firstn (Z.to_nat (g 0%nat)) (skipn 1 a))
  else if id =? 24 then CTestDid (firstn (Z.to_nat (g 0%nat)) (skipn 1 a))
  else if id =? 25 then CWriteDid (g 0%nat) (h 0%nat)
  else if id =? 26 then
    CIoControl (g 0%nat) (oi a 1) (ob a 3 b 0)
               (if g 4%nat =? 0 then MNone else if g 4%nat =? 1 then MBool (zb (g 5%nat))
                else MList (pairs_zb (Z.to_nat (g 5%nat)) (skipn 6 a)))
  else if id =? 27 then
    CFileTransfer (g 0%nat) (h 0%nat) (if g 1%nat =? 1 then Some (g 2%nat, g 3%nat) else None)
                  (if g 4%nat =? 0 then FsNone else if g 4%nat =? 1 then FsInt (g 5%nat) else FsObj (oi a 6) (oi a 8) (oi a 10))
  else if id =? 28 then
    CAuth (g 0%nat) {| au_cfg := oi a 1; au_evalid := oi a 3; au_cert := ob a 5 b 0; au_chal := ob a 6 b 1;
                       au_algo := ob a 7 b 2; au_certdata := ob a 8 b 3; au_pown := ob a 9 b 4; au_eph := ob a 10 b 5;
                       au_add := ob a 11 b 6 |}
  else
    CReadDtc (g 0%nat) {| da_status := oi a 1; da_severity := oi a 3; da_sev_obj := zb (g 5%nat); da_class := oi a 6;
                          da_dtc := oi a 8; da_snap := oi a 10; da_ext := oi a 12; da_memsel := oi a 14;
                          da_fgid := oi a 16; da_ext_size := oi a 18 |}.

Fixpoint decode_replies (n : nat) (a : list Z) (b : list bytes) : list (Z * item) * list Z * list bytes :=
  match n with
  | O => ([], a, b)
  | S k =>
    match a with
    | d :: kind :: a' =>
      if kind =? 0 then
        let '(l, a'', b'') := decode_replies k a' (tl b) in ((d, Frame (hd [] b)) :: l, a'', b'')
      else
        let '(l, a'', b'') := decode_replies k a' b in ((d, Fault) :: l, a'', b'')
    | _ => ([], a, b)
    end
  end.

Fixpoint decode_ops (n : nat) (a : list Z) (b : list bytes) : list op :=
  match n with
  | O => []
  | S k =>
    match a with
    | 0 :: w :: a' => OSprEnter (if w =? 2 then None else Some (zb w)) :: decode_ops k a' b
    | 1 :: a' => OSprExit :: decode_ops k a' b
    | 2 :: kind :: a' =>
      OOvEnter (if kind =? 1 then OvConst (nth 0 b []) else OvFun (nth 0 b []) (nth 1 b [])) :: decode_ops k a' (skipn 2 b)
    | 3 :: a' => OOvExit :: decode_ops k a' b
    | 4 :: id :: nargs :: a' =>
      let args := firstn (Z.to_nat nargs) a' in
      let a1 := skipn (Z.to_nat nargs) a' in
      match a1 with
      | ncb :: nfr :: a2 =>
        let cb := firstn (Z.to_nat ncb) b in
        let b1 := skipn (Z.to_nat ncb) b in
        let '(reps, a3, b2) := decode_replies (Z.to_nat nfr) a2 b1 in
        OCall (decode_call id args cb) reps :: decode_ops k a3 b2
      | _ => []
      end
    | 7 :: code :: id :: nargs :: a' =>
      let args := firstn (Z.to_nat nargs) a' in
      match skipn (Z.to_nat nargs) a' with
      | ncb :: a2 => OCallSendFault (decode_call id args (firstn (Z.to_nat ncb) b)) code :: decode_ops k a2 (skipn (Z.to_nat ncb) b)
      | _ => []
      end
    | 5 :: slot :: v :: a' => OSetCfg slot v :: decode_ops k a' b
    | 6 :: dt :: a' => OAdvance dt :: decode_ops k a' b
    | 8 :: dt :: a' => OAdvance dt :: decode_ops k a' b     (* the next request takes dt to transmit: the call's clock starts when it is out *)
    | _ => []
    end
  end.

Definition entry_history (a0 : list Z) (b : list bytes) : list Z :=
  let L := Z.to_nat (hd 0 a0) in
  let a := tl a0 in
  let cfgv := firstn L a in
  match skipn L a with
  | nops :: rest => run_history cfgv st_init 0 (decode_ops (Z.to_nat nops) rest b)
  | [] => [-998]
  end.
