(* Histories of client operations (context-manager enter/exit, calls, configuration changes) and their
   decoding from the flat case format of the correspondence driver. *)
From Coq Require Import ZArith List Bool String.
From UDS Require Import Lib.Bytes Lib.ErrM Lib.PyOps Model.Message Model.Client Model.Services.
Import ListNotations.
Open Scope Z_scope.
Open Scope list_scope.

Inductive call :=
  | CRaw (sid sub : Z) (spr hasdata : bool) (data : bytes) (timeout : Z)
  | CChangeSession (s : Z)
  | CRequestSeed (level : Z) (data : bytes)
  | CSendKey (level : Z) (key : bytes)
  | CUnlock (level : Z) (params : bytes)
  | CTesterPresent
  | CEcuReset (t : Z).

Definition run_inner (cfg : config) (st : cstate) (c : call) (now : Z) (s : sched) : fres :=
  match c with
  | CRaw sid sub spr hd data to => raw_request cfg st sid sub spr hd data to now s
  | CChangeSession x => change_session cfg st x now s
  | CRequestSeed l d => request_seed cfg st l d now s
  | CSendKey l k => send_key cfg st l k now s
  | CUnlock l p => unlock_security_access cfg st l p now s
  | CTesterPresent => tester_present cfg st now s
  | CEcuReset t => ecu_reset cfg st t now s
  end.

(* a decorated client method as the user calls it (send_request itself is not decorated) *)
Definition is_decorated (c : call) : bool := match c with CRaw _ _ _ _ _ _ => false | _ => true end.

Definition run_call (cfg : config) (st : cstate) (c : call) (now : Z) (s : sched)
  : outcome (option iresp) * cstate * Z * sched * list ev :=
  let '(res, st', t, s', tr) := run_inner cfg st c now s in
  (if is_decorated c then deliver cfg res
   else match res with COk a => ORet a | CErr e r => ORaise e r end, st', t, s', tr).

Inductive op :=
  | OSprEnter (wait_nrc : bool)      (* with client.suppress_positive_response(wait_nrc=..): *)
  | OSprExit
  | OOvEnter (o : override)          (* with client.payload_override(..): *)
  | OOvExit
  | OCall (c : call) (replies : list (Z * item))   (* arrival times relative to the start of the call *)
  | OSetCfg (slot v : Z)
  | OAdvance (dt : Z).

Definition oz (v : Z) : option Z := if v <? 0 then None else Some v.
Definition zb (v : Z) : bool := v =? 1.

Definition cfg_of (a : list Z) : config :=
  let g i := nth i a 0 in
  {| ex_neg := zb (g 0%nat); ex_inv := zb (g 1%nat); ex_unx := zb (g 2%nat);
     tol_pad := zb (g 3%nat); ign_zero := zb (g 4%nat); use_srv := zb (g 5%nat);
     std := g 6%nat; req_to := oz (g 7%nat); p2 := g 8%nat; p2s := g 9%nat; has_cb := zb (g 10%nat);
     srv_addr := oz (g 11%nat); srv_size := oz (g 12%nat); snap_did := g 13%nat; ext_size := oz (g 14%nat);
     algo := g 15%nat; algo_prm := g 16%nat |}.
Definition CFG_LEN : nat := 17.

Fixpoint set_nth (l : list Z) (i : nat) (v : Z) : list Z :=
  match l, i with
  | [], _ => []
  | _ :: tl, O => v :: tl
  | x :: tl, S k => x :: set_nth tl k v
  end.

Definition enc_sdata_resp (o : option iresp) : list Z :=
  match o with
  | None => [0]
  | Some (r, sd) => 1 :: enc_resp_obs r ++ enc_bytes sd
  end.

(* one operation: (observable output, configuration vector, client state, clock) *)
Definition step_op (cfgv : list Z) (st : cstate) (now : Z) (o : op) : list Z * list Z * cstate * Z :=
  match o with
  | OSprEnter w => ([], cfgv, spr_enter (spr_call st w), now)
  | OSprExit => ([], cfgv, spr_exit st, now)
  | OOvEnter ovr => ([], cfgv, ov_enter st ovr, now)
  | OOvExit => ([], cfgv, ov_exit st, now)
  | OSetCfg slot v => ([], set_nth cfgv (Z.to_nat slot) v, st, now)
  | OAdvance dt => ([], cfgv, st, now + dt)
  | OCall c replies =>
    let s := map (fun '(d, it) => (now + d, it)) replies in
    let '(out, st', t, _, tr) := run_call (cfg_of cfgv) st c now s in
    (enc_outcome enc_sdata_resp out ++ enc_trace tr ++ [t], cfgv, st', t)
  end.

(* run a history; the observable is, per call: outcome, trace, time after the call; then the final state *)
Fixpoint run_history (cfgv : list Z) (st : cstate) (now : Z) (ops : list op) : list Z :=
  match ops with
  | [] => enc_state st
  | o :: rest =>
    let '(out, cfgv', st', now') := step_op cfgv st now o in
    out ++ run_history cfgv' st' now' rest
  end.

(* the client state after a history *)
Fixpoint state_after (cfgv : list Z) (st : cstate) (now : Z) (ops : list op) : cstate :=
  match ops with
  | [] => st
  | o :: rest => let '(_, cfgv', st', now') := step_op cfgv st now o in state_after cfgv' st' now' rest
  end.

(* ---- decoding of the flat case ------------------------------------------------------------------- *)
(* ints: cfg (CFG_LEN) ++ [nops] ++ ops ; blobs consumed in order.
   op: 0 w | 1 | 2 kind (blobs: pre post) | 3 | 4 callid nargs args.. ncallblobs nframes (delta kind)* | 5 slot v | 6 dt *)
Definition take_blobs (n : nat) (b : list bytes) : list bytes * list bytes := (firstn n b, skipn n b).

Definition decode_call (id : Z) (a : list Z) (b : list bytes) : call :=
  let g i := nth i a 0 in
  let h i := nth i b [] in
  if id =? 1 then CRaw (g 0%nat) (g 1%nat) (zb (g 2%nat)) (zb (g 3%nat)) (h 0%nat) (g 4%nat)
  else if id =? 2 then CChangeSession (g 0%nat)
  else if id =? 3 then CRequestSeed (g 0%nat) (h 0%nat)
  else if id =? 4 then CSendKey (g 0%nat) (h 0%nat)
  else if id =? 5 then CUnlock (g 0%nat) (h 0%nat)
  else if id =? 6 then CTesterPresent
  else CEcuReset (g 0%nat).

Fixpoint decode_replies (n : nat) (a : list Z) (b : list bytes) : list (Z * item) * list Z * list bytes :=
  match n with
  | O => ([], a, b)
  | S k =>
    match a with
    | d :: kind :: a' =>
      if kind =? 0 then
        let '(l, a'', b'') := decode_replies k a' (tl b) in ((d, Frame (hd [] b)) :: l, a'', b'')
      else
        let '(l, a'', b'') := decode_replies k a' b in ((d, Fault) :: l, a'', b'')
    | _ => ([], a, b)
    end
  end.

Fixpoint decode_ops (n : nat) (a : list Z) (b : list bytes) : list op :=
  match n with
  | O => []
  | S k =>
    match a with
    | 0 :: w :: a' => OSprEnter (zb w) :: decode_ops k a' b
    | 1 :: a' => OSprExit :: decode_ops k a' b
    | 2 :: kind :: a' =>
      OOvEnter (if kind =? 1 then OvConst (nth 0 b []) else OvFun (nth 0 b []) (nth 1 b [])) :: decode_ops k a' (skipn 2 b)
    | 3 :: a' => OOvExit :: decode_ops k a' b
    | 4 :: id :: nargs :: a' =>
      let args := firstn (Z.to_nat nargs) a' in
      let a1 := skipn (Z.to_nat nargs) a' in
      match a1 with
      | ncb :: nfr :: a2 =>
        let cb := firstn (Z.to_nat ncb) b in
        let b1 := skipn (Z.to_nat ncb) b in
        let '(reps, a3, b2) := decode_replies (Z.to_nat nfr) a2 b1 in
        OCall (decode_call id args cb) reps :: decode_ops k a3 b2
      | _ => []
      end
    | 5 :: slot :: v :: a' => OSetCfg slot v :: decode_ops k a' b
    | 6 :: dt :: a' => OAdvance dt :: decode_ops k a' b
    | _ => []
    end
  end.

Definition entry_history (a : list Z) (b : list bytes) : list Z :=
  let cfgv := firstn CFG_LEN a in
  match skipn CFG_LEN a with
  | nops :: rest => run_history cfgv st_init 0 (decode_ops (Z.to_nat nops) rest b)
  | [] => [-998]
  end.
