(* Model of RequestFileTransfer (and Filesize) and of Authentication, with their client methods. *)
From Coq Require Import ZArith List Bool String.
From UDS Require Import Lib.Bytes Lib.ErrM Lib.PyOps Model.Message Model.Client Model.Services Model.Helpers
  Model.Svc_Simple.
Import ListNotations.
Open Scope Z_scope.
Open Scope list_scope.

(* ---- Filesize ---------------------------------------------------------------------------------------- *)
Record filesize := { fs_unc : option Z; fs_comp : option Z; fs_width : Z }.

(* Filesize(uncompressed, compressed, width) *)
Definition mk_filesize (u c w : option Z) : M filesize :=
  _ <- guard (match u, c with None, None => false | _, _ => true end) EValue ;;
  _ <- guard (match u with Some x => 0 <=? x | None => true end) EValue ;;
  _ <- guard (match c with Some x => 0 <=? x | None => true end) EValue ;;
  match w with
  | Some wd =>
    _ <- guard (0 <=? wd) EValue ;;
    let maxsize := 2 ^ (wd * 8) - 1 in
    _ <- guard (match c with Some x => x <=? maxsize | None => true end) EValue ;;
    _ <- guard (match u with Some x => x <=? maxsize | None => true end) EValue ;;
    ret {| fs_unc := u; fs_comp := c; fs_width := wd |}
  | None =>
    let v := Z.max (match u with Some x => x | None => 0 end) (match c with Some x => x | None => 0 end) in
    ret {| fs_unc := u; fs_comp := c; fs_width := byte_len v |}
  end.

Inductive fsarg := FsNone | FsInt (v : Z) | FsObj (u c w : option Z).

(* ---- RequestFileTransfer ---------------------------------------------------------------------------- *)
Definition rft_make (moop : Z) (path : list Z) (d : option (Z * Z)) (f : fsarg) : M req :=
  _ <- guard ((1 <=? moop) && (moop <=? 6)) EValue ;;
  _ <- guard (negb (Nat.eqb (List.length path) 0)) EValue ;;
  _ <- guard (forallb (fun ch => (0 <=? ch) && (ch <? 128)) path) EValue ;;
  _ <- guard (Z.of_nat (List.length path) <=? 65535) EValue ;;
  let use_dfi := (moop =? 1) || (moop =? 3) || (moop =? 4) || (moop =? 6) in
  let use_fs := (moop =? 1) || (moop =? 3) || (moop =? 6) in
  dfo <- (if use_dfi then (x <- (match d with Some (c, e) => mk_dfi c e | None => mk_dfi 0 0 end) ;; ret (Some x))
          else match d with Some _ => fail EValue | None => ret None end) ;;
  fso <- (if use_fs then
            match f with
            | FsNone => fail EValue
            | FsInt v => x <- mk_filesize (Some v) None None ;;
                         y <- mk_filesize (fs_unc x) (fs_unc x) (Some (fs_width x)) ;; ret (Some y)
            | FsObj u c w =>
              x <- mk_filesize u c w ;;
              match fs_unc x with
              | None => fail EValue
              | Some uu => match fs_comp x with
                           | None => y <- mk_filesize (Some uu) (Some uu) (Some (fs_width x)) ;; ret (Some y)
                           | Some _ => ret (Some x)
                           end
              end
            end
          else match f with FsNone => ret None | _ => fail EValue end) ;;
  mb <- to_bytes 1 moop ;;
  lb <- to_bytes 2 (Z.of_nat (List.length path)) ;;
  db <- (match dfo with Some x => pack_B (dfi_byte x) | None => ret [] end) ;;
  fb <- (match fso with
         | Some x =>
           w <- to_bytes 1 (fs_width x) ;;
           u <- (match fs_unc x with Some v => to_bytes (Z.to_nat (fs_width x)) v | None => ret [] end) ;;
           c <- (match fs_comp x with Some v => to_bytes (Z.to_nat (fs_width x)) v | None => ret [] end) ;;
           ret (w ++ u ++ c)
         | None => ret []
         end) ;;
  mk_req_data "RequestFileTransfer" (mb ++ lb ++ path ++ db ++ fb).

(* partial service data kept on the error path: the client looks at moop_echo of a half-decoded response *)
Definition rft_fields := (Z * Z * Z * Z * Z * Z * Z)%type.  (* moop, max_length, dfi, unc, comp, dirinfo, filepos; -1 = unset *)

(* reads n bytes at the cursor as an unsigned number *)
Definition take_num (d : bytes) (cursor n : nat) : M Z :=
  if Nat.ltb (List.length d) (cursor + n) then fail EInvalid else ret (be_dec (firstn n (skipn cursor d))).

Definition rft_interpret_raw (cfg : config) (d : bytes) : Z * M sdata :=
  match d with
  | [] => (-1, fail EInvalid)
  | moop :: _ =>
    (moop,
     let has_lfid := (moop =? 1) || (moop =? 6) || (moop =? 3) || (moop =? 4) || (moop =? 5) in
     let has_fsl := (moop =? 4) || (moop =? 5) in
     let has_comp := moop =? 4 in
     let has_pos := moop =? 6 in
     '(maxlen, cur1) <- (if has_lfid then
                          match d with
                          | _ :: lfid :: _ =>
                            if 8 <? lfid then fail ENotImpl
                            else if lfid =? 0 then fail EInvalid
                            else v <- take_num d 2 (Z.to_nat lfid) ;; ret (v, (2 + Z.to_nat lfid)%nat)
                          | _ => fail EInvalid
                          end
                        else ret (-1, 1%nat)) ;;
     '(dfv, cur2) <- (if has_lfid then
                        match nth_error d cur1 with
                        | None => fail EInvalid
                        | Some b => if (moop =? 5) && negb (b =? 0) then fail EInvalid else ret (b, S cur1)
                        end
                      else ret (-1, cur1)) ;;
     '(unc, comp, cur3) <- (if has_fsl then
                              l <- take_num d cur2 2 ;;
                              if 8 <? l then fail ENotImpl
                              else if l =? 0 then fail EInvalid
                              else
                                let n := Z.to_nat l in
                                u <- take_num d (cur2 + 2) n ;;
                                if has_comp then (c <- take_num d (cur2 + 2 + n) n ;; ret (u, c, (cur2 + 2 + n + n)%nat))
                                else ret (u, -1, (cur2 + 2 + n)%nat)
                            else ret (-1, -1, cur2)) ;;
     '(pos, cur4) <- (if has_pos then (v <- take_num d cur3 8 ;; ret (v, (cur3 + 8)%nat)) else ret (-1, cur3)) ;;
     _ <- guard (Nat.leb (List.length d) cur4 || (all_zero (skipn cur4 d) && tol_pad cfg)) EInvalid ;;
     ret [moop; maxlen; dfv; (if moop =? 5 then -1 else unc); comp; (if moop =? 5 then unc else -1); pos])
  end.

Definition rft_interpret (cfg : config) (moop : Z) (d : option (Z * Z)) (r : resp) : M sdata :=
  let '(echo, res) := rft_interpret_raw cfg (p_data r) in
  match res with
  | inl EInvalid => if (0 <=? echo) && negb (echo =? moop) then fail EUnexpected else fail EInvalid
  | inl e => fail e
  | inr sd =>
    _ <- guard (echo =? moop) EUnexpected ;;
    let use_dfi := (moop =? 1) || (moop =? 3) || (moop =? 4) || (moop =? 6) in
    _ <- (if use_dfi then
            let expected := match d with Some (c, e) => 16 * c + e | None => 0 end in
            guard (nth 2 sd (-1) =? expected) EUnexpected
          else ret tt) ;;
    ret sd
  end.

Definition request_file_transfer (cfg : config) (st : cstate) (moop : Z) (path : list Z) (d : option (Z * Z)) (f : fsarg)
           (now : Z) (s : sched) : fres :=
  single_request cfg st (rft_make moop path d f) (rft_interpret cfg moop d) no_post now s.

(* ---- Authentication ------------------------------------------------------------------------------------ *)
(* length-prefixed byte-string parameter; absent -> length 0 *)
Definition append_param (p : option bytes) : M bytes :=
  match p with
  | Some b => _ <- validate_int (Z.of_nat (List.length b)) 0 65535 ;; l <- pack_H (Z.of_nat (List.length b)) ;; ret (l ++ b)
  | None => ret [0; 0]
  end.

Record authargs := {
  au_cfg : option Z; au_cert : option bytes; au_chal : option bytes; au_algo : option bytes;
  au_evalid : option Z; au_certdata : option bytes; au_pown : option bytes; au_eph : option bytes; au_add : option bytes }.

Definition algo16 (a : option bytes) : M bytes :=
  match a with Some b => if Nat.eqb (List.length b) 16 then ret b else fail EValue | None => fail EValue end.
Definition oint (o : option Z) (lo hi : Z) : M Z :=
  match o with Some v => _ <- validate_int v lo hi ;; ret v | None => fail EValue end.

Definition auth_make (task : Z) (a : authargs) : M req :=
  _ <- validate_int task 0 8 ;;
  d <- (if (task =? 0) || (task =? 8) then ret None
        else if (task =? 1) || (task =? 2) then
          c <- oint (au_cfg a) 0 255 ;; cb <- pack_B c ;;
          x <- append_param (au_cert a) ;; y <- append_param (au_chal a) ;; ret (Some (cb ++ x ++ y))
        else if task =? 5 then
          c <- oint (au_cfg a) 0 255 ;; cb <- pack_B c ;; al <- algo16 (au_algo a) ;; ret (Some (cb ++ al))
        else if task =? 3 then
          x <- append_param (au_pown a) ;; y <- append_param (au_eph a) ;; ret (Some (x ++ y))
        else if task =? 4 then
          e <- oint (au_evalid a) 0 65535 ;; eb <- pack_H e ;; x <- append_param (au_certdata a) ;; ret (Some (eb ++ x))
        else
          al <- algo16 (au_algo a) ;; x <- append_param (au_pown a) ;; y <- append_param (au_chal a) ;;
          z <- append_param (au_add a) ;; ret (Some (al ++ x ++ y ++ z))) ;;
  mk_req "Authentication" (Some task) d.

(* _extract_byes_parameter at a cursor *)
Definition extract_param (d : bytes) (cursor : nat) : M (bytes * nat) :=
  let rest := skipn cursor d in
  match rest with
  | l1 :: l0 :: body =>
    let n := Z.to_nat (l1 * 256 + l0) in
    if Nat.leb n (List.length body) then ret (firstn n body, (cursor + 2 + n)%nat) else fail EInvalid
  | _ => fail EInvalid
  end.

Definition enc_obytes (o : option bytes) : list Z := enc_opt enc_bytes o.

Definition auth_interpret (task : Z) (r : resp) : M sdata :=
  let d := p_data r in
  match d with
  | sub :: retv :: _ =>
    '(chal, eph, cert, pown, skey, algo, need, off) <-
      (if (sub =? 0) || (sub =? 4) || (sub =? 8) then ret (None, None, None, None, None, None, None, 2%nat)
       else if sub =? 1 then
         '(c, o1) <- extract_param d 2 ;; '(e, o2) <- extract_param d o1 ;;
         ret (Some c, Some e, None, None, None, None, None, o2)
       else if sub =? 2 then
         '(c, o1) <- extract_param d 2 ;; '(ce, o2) <- extract_param d o1 ;;
         '(p, o3) <- extract_param d o2 ;; '(e, o4) <- extract_param d o3 ;;
         ret (Some c, Some e, Some ce, Some p, None, None, None, o4)
       else if sub =? 3 then
         '(k, o1) <- extract_param d 2 ;; ret (None, None, None, None, Some k, None, None, o1)
       else if (sub =? 5) || (sub =? 6) || (sub =? 7) then
         if Nat.ltb (List.length d) 18 then fail EInvalid
         else
           let al := firstn 16 (skipn 2 d) in
           if sub =? 5 then
             '(c, o1) <- extract_param d 18 ;; '(n, o2) <- extract_param d o1 ;;
             ret (Some c, None, None, None, None, Some al, Some n, o2)
           else if sub =? 7 then
             '(p, o1) <- extract_param d 18 ;; '(k, o2) <- extract_param d o1 ;;
             ret (None, None, None, Some p, Some k, Some al, None, o2)
           else
             '(k, o1) <- extract_param d 18 ;; ret (None, None, None, None, Some k, Some al, None, o1)
       else fail EInvalid) ;;
    _ <- guard (Nat.leb (List.length d) off) EInvalid ;;
    _ <- guard (task =? sub) EUnexpected ;;
    ret (sub :: retv :: enc_obytes chal ++ enc_obytes eph ++ enc_obytes cert ++ enc_obytes pown ++ enc_obytes skey
             ++ enc_obytes algo ++ enc_obytes need)
  | _ => fail EInvalid
  end.

Definition authentication (cfg : config) (st : cstate) (task : Z) (a : authargs) (now : Z) (s : sched) : fres :=
  single_request cfg st (auth_make task a) (auth_interpret task) no_post now s.
