(* Model of the client methods and of the services they use (make_request / interpret_response and the
   echo checks of client.py).  service_data is rendered directly in its canonical integer form.
   First family: DiagnosticSessionControl, SecurityAccess (incl. unlock_security_access), TesterPresent,
   ECUReset, raw send_request. *)
From Coq Require Import ZArith List Bool String.
From UDS Require Import Lib.Bytes Lib.ErrM Lib.PyOps Model.Message Model.Client.
Import ListNotations.
Open Scope Z_scope.
Open Scope list_scope.

Definition validate_int (v lo hi : Z) : M unit :=
  if (v <? lo) || (hi <? v) then fail EValue else ret tt.

Definition svc_by_name (n : string) : option svc := find (fun s => String.eqb (s_name s) n) services.
Definition mk_req (name : string) (sub : option Z) (data : option bytes) : M req :=
  match svc_by_name name with
  | Some s => mk_request (Some s) sub false data
  | None => fail EAssert
  end.

(* result of an undecorated client function: value, new state, time, remaining schedule, trace *)
Definition sdata := list Z.
Definition iresp := (resp * sdata)%type.
Definition fres := (cres (option iresp) * cstate * Z * sched * list ev)%type.

(* only the three response exceptions carry e.response *)
Definition carries_response (e : err) : bool :=
  match e with ENegative | EInvalid | EUnexpected => true | _ => false end.

(* the common shape: make_request, send_request, interpret + echo checks, optional state update *)
Definition single_request (cfg : config) (st : cstate) (mk : M req) (interp : resp -> M sdata)
           (post : sdata -> cstate -> cstate) (now : Z) (s : sched) : fres :=
  match mk with
  | inl e => (CErr e None, st, now, s, [])
  | inr rq =>
    let '(res, t, s', tr) := send_request cfg st rq (-1) now s in
    match res with
    | CErr e r => (CErr e r, st, t, s', tr)
    | COk None => (COk None, st, t, s', tr)
    | COk (Some r) =>
      match interp r with
      | inl e => (CErr e (if carries_response e then Some r else None), st, t, s', tr)
      | inr sd => (COk (Some (r, sd)), post sd st, t, s', tr)
      end
    end
  end.
Definition no_post (sd : sdata) (st : cstate) : cstate := st.

(* ---- DiagnosticSessionControl / change_session -------------------------------------------------- *)
Definition dsc_make (session : Z) : M req :=
  _ <- validate_int session 0 127 ;; mk_req "DiagnosticSessionControl" (Some session) None.

(* interpret_response followed by the client's echo comparison *)
Definition dsc_interpret (cfg : config) (session : Z) (r : resp) : M sdata :=
  match p_data r with
  | [] => fail EInvalid
  | echo :: rec =>
    tim <- (if 2013 <=? std cfg then
              match rec with
              | [a1; a0; b1; b0] => ret (Some ((a1 * 256 + a0) * 1000, (b1 * 256 + b0) * 10000))
              | _ => fail EInvalid
              end
            else ret None) ;;
    _ <- guard (session =? echo) EUnexpected ;;
    ret (echo :: (match tim with Some (a, b) => [a; b] | None => [-1; -1] end) ++ enc_bytes rec)
  end.

Definition dsc_post (cfg : config) (sd : sdata) (st : cstate) : cstate :=
  if (2006 <? std cfg) && use_srv cfg then
    match sd with
    | _ :: a :: b :: _ => set_timing st a b
    | _ => st
    end
  else st.

Definition change_session (cfg : config) (st : cstate) (session : Z) (now : Z) (s : sched) : fres :=
  single_request cfg st (dsc_make session) (dsc_interpret cfg session) (dsc_post cfg) now s.

(* ---- SecurityAccess ------------------------------------------------------------------------------- *)
Definition normalize_level (send_key : bool) (level : Z) : M Z :=
  _ <- validate_int level 1 126 ;;
  if send_key then ret (if level mod 2 =? 0 then level else level + 1)
  else ret (if level mod 2 =? 1 then level else level - 1).

Definition sa_make (send_key : bool) (level : Z) (data : bytes) : M req :=
  _ <- validate_int level 0 127 ;;
  lv <- normalize_level send_key level ;;
  mk_req "SecurityAccess" (Some lv) (Some data).

Definition sa_interpret (send_key : bool) (level : Z) (r : resp) : M sdata :=
  let d := p_data r in
  _ <- guard (Nat.leb (if send_key then 1 else 2) (List.length d)) EInvalid ;;
  match d with
  | [] => fail EInvalid
  | echo :: seed =>
    expected <- normalize_level send_key level ;;
    _ <- guard (expected =? echo) EUnexpected ;;
    ret (echo :: (if send_key then [0] else 1 :: enc_bytes seed))
  end.

Definition request_seed (cfg : config) (st : cstate) (level : Z) (data : bytes) (now : Z) (s : sched) : fres :=
  single_request cfg st (sa_make false level data) (sa_interpret false level) no_post now s.
Definition send_key (cfg : config) (st : cstate) (level : Z) (key : bytes) (now : Z) (s : sched) : fres :=
  single_request cfg st (sa_make true level key) (sa_interpret true level) no_post now s.

(* the configured security algorithm: flavours of the three documented signatures.
   1: algo(seed)   2: algo(seed, params)   3: algo(level, seed, params)   4: callable object without __code__
   (gets all three)   5: algo(seed, params) whose body has a local variable called level   6: algo(seed) whose body has locals
   called level and params (only declared parameters count)   7: algo(seed, params) that fails: it raises the application's own
   exception (algo_fails): the call ends with that error and nothing more is sent   8: algo(seed, params) that is a functools.wraps
   decorator around a function of another signature (the signature of the callable that is configured counts).
   The executable instance computes  reversed(seed) ++ extras. *)
Definition algo_fails (cfg : config) : bool := algo cfg =? 7.
Definition algo_run (cfg : config) (seed : bytes) (level : Z) : bytes * ev :=
  let prm := algo_prm cfg in
  let pb := if prm <? 0 then 0 else prm mod 256 in
  if (algo cfg =? 1) || (algo cfg =? 6) then (rev seed, EvALGO seed (-1) (-1))
  else if (algo cfg =? 2) || (algo cfg =? 5) || (algo cfg =? 7) || (algo cfg =? 8) then (rev seed ++ [pb], EvALGO seed (-1) prm)
  else (rev seed ++ [level mod 256; pb], EvALGO seed level prm).

Definition seed_of (sd : sdata) : bytes := match sd with _ :: _ :: _ :: seed => seed | _ => [] end.

Definition unlock_security_access (cfg : config) (st : cstate) (level : Z) (params : bytes) (now : Z) (s : sched) : fres :=
  if algo cfg <=? 0 then (CErr ENotImpl None, st, now, s, [])
  else
    let '(res, st1, t1, s1, tr1) := request_seed cfg st level params now s in
    match res with
    | CErr e r => (CErr e r, st1, t1, s1, tr1)
    | COk None => (COk None, st1, t1, s1, tr1)
    | COk (Some (r, sd)) =>
      let seed := seed_of sd in
      if negb (Nat.eqb (List.length seed) 0) && all_zero seed then (COk (Some (r, sd)), st1, t1, s1, tr1)
      else
        let '(key, e) := algo_run cfg seed level in
        if algo_fails cfg then (CErr ERuntime None, st1, t1, s1, tr1 ++ [e])
        else
          let '(res2, st2, t2, s2, tr2) := send_key cfg st1 level key t1 s1 in
          (res2, st2, t2, s2, tr1 ++ e :: tr2)
    end.

(* ---- TesterPresent / ECUReset -------------------------------------------------------------------- *)
Definition tp_interpret (r : resp) : M sdata :=
  match p_data r with
  | [] => fail EInvalid
  | echo :: _ => _ <- guard (0 =? echo) EUnexpected ;; ret [echo]
  end.
Definition tester_present (cfg : config) (st : cstate) (now : Z) (s : sched) : fres :=
  single_request cfg st (mk_req "TesterPresent" (Some 0) None) tp_interpret no_post now s.

Definition er_make (t : Z) : M req := _ <- validate_int t 0 127 ;; mk_req "ECUReset" (Some t) None.
Definition er_interpret (t : Z) (r : resp) : M sdata :=
  match p_data r with
  | [] => fail EInvalid
  | echo :: rest =>
    pd <- (if echo =? 4 then match rest with [] => fail EInvalid | x :: _ => ret x end else ret (-1)) ;;
    _ <- guard (echo =? t) EUnexpected ;;
    ret [echo; pd]
  end.
Definition ecu_reset (cfg : config) (st : cstate) (t : Z) (now : Z) (s : sched) : fres :=
  single_request cfg st (er_make t) (er_interpret t) no_post now s.

(* ---- raw send_request(Request(service, sub, spr, data), timeout) -------------------------------- *)
Definition raw_request (cfg : config) (st : cstate) (sid sub : Z) (spr hasdata : bool) (data : bytes)
           (timeout : Z) (now : Z) (s : sched) : fres :=
  match mk_request (if sid <? 0 then None else from_request_id sid) (if sub <? 0 then None else Some sub) spr
                   (if hasdata then Some data else None) with
  | inl e => (CErr e None, st, now, s, [])
  | inr rq =>
    let '(res, t, s', tr) := send_request cfg st rq timeout now s in
    match res with
    | CErr e r => (CErr e r, st, t, s', tr)
    | COk None => (COk None, st, t, s', tr)
    | COk (Some r) => (COk (Some (r, [])), st, t, s', tr)
    end
  end.
