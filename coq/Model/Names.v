(* Model of the identifier-to-name lookups: BaseSubfunction.get_name, ResponseCode.get_name (in
   Message.v), DataIdentifier.name_from_id, Routine.name_from_id, Dtc.Format.get_name. *)
From Coq Require Import ZArith List Bool String.
From UDS Require Import Lib.Bytes Lib.ErrM Gen.Subfunctions Gen.Ids Gen.Nrc Model.Message.
Import ListNotations.
Open Scope string_scope.
Open Scope Z_scope.
Open Scope list_scope.

Record subfn_table := { t_owner : string; t_class : string; t_pretty : option string;
                        t_members : list (string * gen_member) }.
Definition subfn_tables : list subfn_table :=
  map (fun '(o, c, p, m) => Build_subfn_table o c p m) gen_subfunction_tables.

(* BaseSubfunction.get_name: members in name order; an int member matches by equality, a tuple member
   (lo, hi) matches lo <= v <= hi; first match wins *)
Definition member_matches (v : Z) (m : gen_member) : bool :=
  match m with
  | GInt x => x =? v
  | GRange lo hi => (lo <=? v) && (v <=? hi)
  end.

Definition custom_name (t : subfn_table) : string :=
  append "Custom " (match t_pretty t with Some p => p | None => t_class t end).

Definition subfn_get_name (t : subfn_table) (v : Z) : string :=
  match find (fun '(_, m) => member_matches v m) (t_members t) with
  | Some (n, _) => n
  | None => custom_name t
  end.

(* name_from_id: ValueError outside 0..0xFFFF, then the first row lo <= v <= hi, else None *)
Definition chain_lookup (chain : list (Z * Z * string)) (v : Z) : M (option string) :=
  if (v <? 0) || (65535 <? v) then fail EValue
  else ret (match find (fun '(lo, hi, _) => (lo <=? v) && (v <=? hi)) chain with
            | Some (_, _, n) => Some n
            | None => None
            end).
Definition did_name_from_id := chain_lookup gen_did_chain.
Definition routine_name_from_id := chain_lookup gen_routine_chain.

(* Dtc.Format.get_name: first member in name order with that value, else None *)
Definition dtc_format_name (v : Z) : option string :=
  match find (fun '(_, x) => x =? v) gen_dtc_format with Some (n, _) => Some n | None => None end.

Definition enc_ostring (o : option string) : list Z := enc_opt enc_string o.

Definition entry_names (e : Z) (a : list Z) : list Z :=
  let v := nth 1 a 0 in
  if e =? 2001 then
    match nth_error subfn_tables (Z.to_nat (nth 0 a 0)) with
    | Some t => enc_string (subfn_get_name t v)
    | None => [-999]
    end
  else if e =? 2006 then
    (* the same lookup in a table an application derived from table i, re-defining its k-th constant (an integer, or a range) *)
    match nth_error subfn_tables (Z.to_nat (nth 0 a 0)) with
    | Some t =>
      let k := Z.to_nat (nth 2 a 0) in
      let m' := if nth 3 a 0 =? 0 then GInt (nth 4 a 0) else GRange (nth 4 a 0) (nth 5 a 0) in
      let members' := firstn k (t_members t) ++ match skipn k (t_members t) with (n, _) :: tl => (n, m') :: tl | [] => [] end in
      enc_string (subfn_get_name {| t_owner := t_owner t; t_class := t_class t; t_pretty := t_pretty t; t_members := members' |} v)
    | None => [-999]
    end
  else if e =? 2002 then enc_string (nrc_name v)
  else if e =? 2003 then enc_M enc_ostring (did_name_from_id v)
  else if e =? 2004 then enc_M enc_ostring (routine_name_from_id v)
  else if e =? 2005 then enc_ostring (dtc_format_name v)
  else [-999].
