(* Model of the memory-addressed services and client methods: ReadMemoryByAddress, WriteMemoryByAddress,
   RequestDownload, RequestUpload, DynamicallyDefineDataIdentifier. *)
From Coq Require Import ZArith List Bool String.
From UDS Require Import Lib.Bytes Lib.ErrM Lib.PyOps Gen.Maps Model.Message Model.Client Model.Services
  Model.Helpers Model.MemLoc Model.Svc_Simple.
Import ListNotations.
Open Scope Z_scope.
Open Scope list_scope.

(* the caller's MemoryLocation(address, size, address_format, memorysize_format), then the configured formats *)
Definition client_memloc (cfg : config) (addr size : Z) (af sf : option Z) : M memloc :=
  m <- mk_memloc addr size af sf ;; apply_server_formats m (srv_addr cfg) (srv_size cfg).

(* ---- ReadMemoryByAddress ---------------------------------------------------------------------------- *)
Definition rmba_make (cfg : config) (addr size : Z) (af sf : option Z) : M req :=
  m <- client_memloc cfg addr size af sf ;; w <- memloc_wire m ;; mk_req_data "ReadMemoryByAddress" w.
Definition rmba_interpret (cfg : config) (size : Z) (r : resp) : M sdata :=
  let d := p_data r in
  match d with
  | [] => fail EInvalid
  | _ =>
    let n := Z.of_nat (List.length d) in
    if n <? size then fail EUnexpected
    else if size <? n then
      if all_zero (skipn (Z.to_nat size) d) && tol_pad cfg then ret (enc_bytes (firstn (Z.to_nat size) d))
      else fail EUnexpected
    else ret (enc_bytes d)
  end.
Definition read_memory_by_address (cfg : config) (st : cstate) (addr size : Z) (af sf : option Z) (now : Z) (s : sched) : fres :=
  single_request cfg st (rmba_make cfg addr size af sf) (rmba_interpret cfg size) no_post now s.

(* ---- WriteMemoryByAddress --------------------------------------------------------------------------- *)
Definition wmba_make (cfg : config) (addr size : Z) (af sf : option Z) (data : bytes) : M req :=
  m <- client_memloc cfg addr size af sf ;; w <- memloc_wire m ;; mk_req_data "WriteMemoryByAddress" (w ++ data).
Definition wmba_interpret (cfg : config) (addr size : Z) (af sf : option Z) (r : resp) : M sdata :=
  m <- client_memloc cfg addr size af sf ;;
  ab <- addr_bytes m ;; sb <- size_bytes m ;;
  let na := List.length ab in let ns := List.length sb in
  let d := p_data r in
  if Nat.ltb (List.length d) (1 + na + ns) then fail EInvalid
  else
    let alfid_echo := nth 0 d 0 in
    let a_echo := be_dec (firstn na (skipn 1 d)) in
    let s_echo := be_dec (firstn ns (skipn (1 + na) d)) in
    b <- alfid_byte (ml_alfid m) ;;
    _ <- guard (alfid_echo =? b) EUnexpected ;;
    _ <- guard (a_echo =? addr) EUnexpected ;;
    _ <- guard (s_echo =? size) EUnexpected ;;
    ret [alfid_echo; a_echo; s_echo].
Definition write_memory_by_address (cfg : config) (st : cstate) (addr size : Z) (af sf : option Z) (data : bytes)
           (now : Z) (s : sched) : fres :=
  single_request cfg st (wmba_make cfg addr size af sf data) (wmba_interpret cfg addr size af sf) no_post now s.

(* ---- RequestDownload / RequestUpload ------------------------------------------------------------------ *)
Definition rud_make (cfg : config) (upload : bool) (addr size : Z) (af sf : option Z) (d : option (Z * Z)) : M req :=
  df <- (match d with Some (c, e) => mk_dfi c e | None => mk_dfi 0 0 end) ;;
  m <- client_memloc cfg addr size af sf ;;
  db <- pack_B (dfi_byte df) ;;
  w <- memloc_wire m ;;
  mk_req_data (if upload then "RequestUpload" else "RequestDownload") (db ++ w).
(* length-prefixed maxNumberOfBlockLength: high nibble of the first byte = number of bytes, unsigned *)
Definition rud_interpret (r : resp) : M sdata :=
  match p_data r with
  | [] => fail EInvalid
  | b0 :: rest =>
    let lfid := Z.shiftr b0 4 in
    if 8 <? lfid then fail ENotImpl
    else if Z.of_nat (List.length rest) <? lfid then fail EInvalid
    else ret [be_dec (firstn (Z.to_nat lfid) rest)]
  end.
Definition request_upload_download (cfg : config) (st : cstate) (upload : bool) (addr size : Z) (af sf : option Z)
           (d : option (Z * Z)) (now : Z) (s : sched) : fres :=
  single_request cfg st (rud_make cfg upload addr size af sf d) rud_interpret no_post now s.

(* ---- DynamicallyDefineDataIdentifier ------------------------------------------------------------------- *)
Inductive diddef :=
  | DefByDid (entries : list (Z * Z * Z))                    (* (source_did, position, memorysize) *)
  | DefByMem (entries : list (Z * Z * option Z * option Z)). (* MemoryLocation(address, size, af, sf) *)

(* DynamicDidDefinition.ByDidDefinition(...) constructor checks *)
Definition bydid_ok (e : Z * Z * Z) : bool :=
  let '(sd, pos, ms) := e in (0 <=? sd) && (sd <=? 65535) && (0 <=? pos) && (0 <=? ms).

Fixpoint mapM {A B} (f : A -> M B) (l : list A) : M (list B) :=
  match l with
  | [] => ret []
  | x :: tl => y <- f x ;; ys <- mapM f tl ;; ret (y :: ys)
  end.

Definition dddi_define_make (cfg : config) (did : Z) (d : diddef) : M req :=
  match d with
  | DefByDid entries =>
    _ <- guard (forallb bydid_ok entries) EValue ;;
    _ <- validate_int did 0 65535 ;;
    _ <- guard (negb (Nat.eqb (List.length entries) 0)) EValue ;;
    db <- pack_H did ;;
    es <- mapM (fun '(sd, pos, ms) => a <- pack_H sd ;; b <- pack_B pos ;; c <- pack_B ms ;; ret (a ++ b ++ c)) entries ;;
    mk_req "DynamicallyDefineDataIdentifier" (Some 1) (Some (db ++ List.concat es))
  | DefByMem entries =>
    ms <- mapM (fun '(a, s, af, sf) => mk_memloc a s af sf) entries ;;
    ms1 <- mapM (fun m => set_format_if_none m (srv_addr cfg) None) ms ;;
    ms2 <- mapM (fun m => set_format_if_none m None (srv_size cfg)) ms1 ;;
    _ <- validate_int did 0 65535 ;;
    _ <- guard (negb (Nat.eqb (List.length entries) 0)) EValue ;;
    db <- pack_H did ;;
    al <- match ms2 with
          | [] => fail EValue
          | m0 :: rest =>
            b0 <- alfid_byte (ml_alfid m0) ;;
            bs <- mapM (fun m => alfid_byte (ml_alfid m)) rest ;;
            _ <- guard (forallb (Z.eqb b0) bs) EValue ;;
            pack_B b0
          end ;;
    es <- mapM (fun m => a <- addr_bytes m ;; s <- size_bytes m ;; ret (a ++ s)) ms2 ;;
    mk_req "DynamicallyDefineDataIdentifier" (Some 2) (Some (db ++ al ++ List.concat es))
  end.

Definition dddi_interpret (sub : Z) (did : option Z) (must_have_did : bool) (r : resp) : M sdata :=
  match p_data r with
  | [] => fail EInvalid
  | echo :: rest =>
    _ <- guard (negb (((echo =? 1) || (echo =? 2)) && Nat.ltb (List.length rest) 2)) EInvalid ;;
    let did_echo := match rest with d1 :: d0 :: _ => Some (d1 * 256 + d0) | _ => None end in
    _ <- guard (sub =? echo) EUnexpected ;;
    _ <- (match did, did_echo with
          | Some d, Some e => guard (d =? e) EUnexpected
          | Some d, None => if must_have_did then fail EUnexpected else ret tt
          | None, _ => ret tt
          end) ;;
    ret [echo; match did_echo with Some e => e | None => -1 end]
  end.

Definition dynamically_define_did (cfg : config) (st : cstate) (did : Z) (d : diddef) (now : Z) (s : sched) : fres :=
  single_request cfg st (dddi_define_make cfg did d)
                 (dddi_interpret (match d with DefByDid _ => 1 | DefByMem _ => 2 end) (Some did) false) no_post now s.

Definition dddi_clear_make (did : option Z) : M req :=
  match did with
  | Some d => _ <- validate_int d 0 65535 ;; db <- pack_H d ;; mk_req "DynamicallyDefineDataIdentifier" (Some 3) (Some db)
  | None => mk_req "DynamicallyDefineDataIdentifier" (Some 3) (Some [])
  end.
Definition do_clear_dynamically_defined_did (cfg : config) (st : cstate) (did : option Z) (now : Z) (s : sched) : fres :=
  single_request cfg st (dddi_clear_make did) (dddi_interpret 3 did true) no_post now s.
