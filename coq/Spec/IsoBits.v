(* ISO 14229-1 bit assignments of the one-byte helper fields, written by hand from the standard
   (Annex D.2 statusOfDTC, D.3 DTCSeverityMask, 2020 DTC class, Annex B.1 communicationType, 10.5
   dataFormatIdentifier, addressAndLengthFormatIdentifier, B.3 linkControlModeIdentifier). *)
From Coq Require Import ZArith List Bool String.
Import ListNotations.
Open Scope string_scope.
Open Scope Z_scope.

(* (field name as the library calls it, bit number) *)
Definition iso_status_bits : list (string * Z) := [
  ("test_failed", 0); ("test_failed_this_operation_cycle", 1); ("pending", 2); ("confirmed", 3);
  ("test_not_completed_since_last_clear", 4); ("test_failed_since_last_clear", 5);
  ("test_not_completed_this_operation_cycle", 6); ("warning_indicator_requested", 7) ].
Definition iso_severity_bits : list (string * Z) := [
  ("maintenance_only", 5); ("check_at_next_exit", 6); ("check_immediately", 7) ].
Definition iso_dtcclass_bits : list (string * Z) := [
  ("class0", 0); ("class1", 1); ("class2", 2); ("class3", 3); ("class4", 4) ].

(* value of a flag vector per ISO: sum of 2^bit over the set fields; fields in the given order *)
Definition iso_flags_value (bits : list (string * Z)) (fields : list string) (vals : list bool) : Z :=
  fold_left (fun (acc : Z) '((f, v) : string * bool) =>
    if v then match find (fun '(g, _) => String.eqb g f) bits with
              | Some (_, k) => acc + 2 ^ k | None => acc end
    else acc) (combine fields vals) 0.
Definition iso_flags_of_byte (bits : list (string * Z)) (fields : list string) (b : Z) : list bool :=
  map (fun f => match find (fun '(g, _) => String.eqb g f) bits with
                | Some (_, k) => Z.testbit b k | None => false end) fields.
Definition iso_mask (bits : list (string * Z)) : Z := fold_left (fun (acc : Z) '((_, k) : string * Z) => acc + 2 ^ k) bits 0.

(* communicationType: bit0 normal, bit1 network management, bits 4..7 subnet; bits 2..3 reserved *)
Definition iso_commtype_byte (subnet : Z) (normal nm : bool) : Z :=
  (if normal then 1 else 0) + (if nm then 2 else 0) + 16 * subnet.
(* dataFormatIdentifier: high nibble compression, low nibble encryption *)
Definition iso_dfi_byte (c e : Z) : Z := 16 * c + e.
(* addressAndLengthFormatIdentifier: high nibble = bytes of memory size, low nibble = bytes of address *)
Definition iso_alfid_byte (addr_bits size_bits : Z) : Z := 16 * (size_bits / 8) + addr_bits / 8.
(* linkControlModeIdentifier (fixed baud rates), Annex B.3 *)
Definition iso_baud_ids : list (Z * Z) := [
  (9600, 0x01); (19200, 0x02); (38400, 0x03); (57600, 0x04); (115200, 0x05);
  (125000, 0x10); (250000, 0x11); (500000, 0x12); (1000000, 0x13) ].
