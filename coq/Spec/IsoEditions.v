(* What each edition of ISO 14229-1 adds, as far as the library distinguishes editions (hand-written). *)
From Coq Require Import ZArith List Bool.
Import ListNotations.
Open Scope Z_scope.

Definition iso_editions : list Z := [2006; 2013; 2020].
(* ReadDTCInformation subfunctions introduced by the 2020 edition *)
Definition iso_dtc_subfunctions_2020 : list Z := [0x16; 0x17; 0x18; 0x19; 0x1A; 0x42; 0x55; 0x56].
(* ReadDTCInformation subfunctions of all editions *)
Definition iso_dtc_subfunctions : list Z :=
  [1; 2; 3; 4; 5; 6; 7; 8; 9; 10; 11; 12; 13; 14; 15; 16; 17; 18; 19; 20; 21; 22; 23; 24; 25; 26; 0x42; 0x55; 0x56].
(* CommunicationControl control types that carry a nodeIdentificationNumber (from 2013) *)
Definition iso_enhanced_address_types : list Z := [4; 5].
