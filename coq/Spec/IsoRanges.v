(* ISO 14229-1 (2006, Annex C.1 and Annex F) identifier ranges, written by hand from the standard,
   independently of the code: categories of data identifiers and routine identifiers.
   Individually named identifiers (0xF180..0xF19F, 0xE200, 0xFF00..0xFF02) are not listed here:
   for those the expected name is the library's own constant (see Proofs/C20_lemmas.v). *)
From Coq Require Import ZArith List Bool String.
Import ListNotations.
Open Scope string_scope.
Open Scope Z_scope.

Definition iso_did_ranges : list (Z * Z * string) := [
  (0x0000, 0x00FF, "ISOSAEReserved");
  (0x0100, 0xEFFF, "VehicleManufacturerSpecific");
  (0xF000, 0xF00F, "NetworkConfigurationDataForTractorTrailerApplicationDataIdentifier");
  (0xF010, 0xF0FF, "VehicleManufacturerSpecific");
  (0xF100, 0xF17F, "IdentificationOptionVehicleManufacturerSpecificDataIdentifier");
  (0xF180, 0xF19F, "<named>");
  (0xF1A0, 0xF1EF, "IdentificationOptionVehicleManufacturerSpecific");
  (0xF1F0, 0xF1FF, "IdentificationOptionSystemSupplierSpecific");
  (0xF200, 0xF2FF, "PeriodicDataIdentifier");
  (0xF300, 0xF3FF, "DynamicallyDefinedDataIdentifier");
  (0xF400, 0xF5FF, "OBDDataIdentifier");
  (0xF600, 0xF7FF, "OBDMonitorDataIdentifier");
  (0xF800, 0xF8FF, "OBDInfoTypeDataIdentifier");
  (0xF900, 0xF9FF, "TachographDataIdentifier");
  (0xFA00, 0xFA0F, "AirbagDeploymentDataIdentifier");
  (0xFA10, 0xFAFF, "SafetySystemDataIdentifier");
  (0xFB00, 0xFCFF, "ReservedForLegislativeUse");
  (0xFD00, 0xFEFF, "SystemSupplierSpecific");
  (0xFF00, 0xFFFF, "ISOSAEReserved")
].

Definition iso_routine_ranges : list (Z * Z * string) := [
  (0x0000, 0x00FF, "ISOSAEReserved");
  (0x0100, 0x01FF, "TachographTestIds");
  (0x0200, 0xDFFF, "VehicleManufacturerSpecific");
  (0xE000, 0xE1FF, "OBDTestIds");
  (0xE200, 0xE200, "<named>");
  (0xE201, 0xE2FF, "SafetySystemRoutineIDs");
  (0xE300, 0xEFFF, "ISOSAEReserved");
  (0xF000, 0xFEFF, "SystemSupplierSpecific");
  (0xFF00, 0xFF02, "<named>");
  (0xFF03, 0xFFFF, "ISOSAEReserved")
].

(* a list of ranges is a partition of 0..0xFFFF when consecutive rows abut *)
Fixpoint partition_from (start : Z) (l : list (Z * Z * string)) : bool :=
  match l with
  | [] => start =? 0x10000
  | (lo, hi, _) :: tl => (lo =? start) && (lo <=? hi) && partition_from (hi + 1) tl
  end.

Definition iso_category (ranges : list (Z * Z * string)) (v : Z) : option string :=
  match find (fun '(lo, hi, _) => (lo <=? v) && (v <=? hi)) ranges with
  | Some (_, _, n) => Some n
  | None => None
  end.
