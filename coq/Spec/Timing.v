(* The abstract timing rule of property C05, written independently of the code's shape.
   Times in microseconds. *)
From Coq Require Import ZArith List Bool.
Import ListNotations.
Open Scope Z_scope.

(* the i-th wait of a request lasts at most the applicable window, and never goes beyond the deadline *)
Definition spec_wait (window : Z) (deadline : option Z) (now : Z) : Z :=
  match deadline with
  | None => window
  | Some d => Z.max 0 (Z.min window (d - now))
  end.

(* first window: min(P2, overall) (P2 alone when the overall timeout is disabled); later windows: P2* *)
Definition first_window (p2 : Z) (overall : option Z) : Z :=
  match overall with Some o => Z.min p2 o | None => p2 end.
Definition spec_deadline (t_send : Z) (overall : option Z) : option Z :=
  match overall with Some o => Some (t_send + o) | None => None end.
