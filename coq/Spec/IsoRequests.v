(* ISO 14229-1 request layouts and documented argument domains (Appendix A of DESIGN.md), written by hand from
   the standard and the library documentation, independently of the code's shape: for each call, the exact
   bytes after the service identifier, or None when the arguments are outside the documented domain. *)
From Coq Require Import ZArith List Bool String.
From UDS Require Import Lib.Bytes.
Import ListNotations.
Open Scope string_scope.
Open Scope Z_scope.
Open Scope list_scope.

(* service identifiers and whether the first data byte is a subfunction (bit 7 = suppressPosRspMsgIndicationBit) *)
Definition iso_services : list (string * Z * bool) := [
  ("DiagnosticSessionControl", 0x10, true); ("ECUReset", 0x11, true); ("SecurityAccess", 0x27, true);
  ("CommunicationControl", 0x28, true); ("Authentication", 0x29, true); ("TesterPresent", 0x3E, true);
  ("AccessTimingParameter", 0x83, true); ("ControlDTCSetting", 0x85, true); ("LinkControl", 0x87, true);
  ("ReadDataByIdentifier", 0x22, false); ("WriteDataByIdentifier", 0x2E, false); ("ReadMemoryByAddress", 0x23, false);
  ("WriteMemoryByAddress", 0x3D, false); ("DynamicallyDefineDataIdentifier", 0x2C, true);
  ("InputOutputControlByIdentifier", 0x2F, false); ("RoutineControl", 0x31, true); ("RequestDownload", 0x34, false);
  ("RequestUpload", 0x35, false); ("TransferData", 0x36, false); ("RequestTransferExit", 0x37, false);
  ("RequestFileTransfer", 0x38, false); ("ClearDiagnosticInformation", 0x14, false); ("ReadDTCInformation", 0x19, true) ].

Definition in_u (v hi : Z) : bool := (0 <=? v) && (v <=? hi).
Definition u8 (v : Z) : bytes := be_enc 1 v.
Definition u16 (v : Z) : bytes := be_enc 2 v.
Definition u24 (v : Z) : bytes := be_enc 3 v.
Definition odata (o : option bytes) : bytes := match o with Some d => d | None => [] end.

(* a request: service name, subfunction (for services that have one), bytes that follow *)
Record iso_req := { i_name : string; i_sub : option Z; i_data : bytes }.
Definition ireq (n : string) (s : option Z) (d : bytes) : option iso_req := Some {| i_name := n; i_sub := s; i_data := d |}.

(* 0x10 DiagnosticSessionControl: SF = session 0..0x7F *)
Definition iso_change_session (session : Z) : option iso_req :=
  if in_u session 127 then ireq "DiagnosticSessionControl" (Some session) [] else None.
(* 0x11 ECUReset: SF = reset type 0..0x7F *)
Definition iso_ecu_reset (t : Z) : option iso_req :=
  if in_u t 127 then ireq "ECUReset" (Some t) [] else None.
(* 0x27 SecurityAccess: level 1..0x7E of either parity; requestSeed = 2k-1 + record, sendKey = 2k + key *)
Definition iso_security (send_key : bool) (level : Z) (data : bytes) : option iso_req :=
  if (1 <=? level) && (level <=? 126) then
    ireq "SecurityAccess" (Some (if send_key then 2 * ((level + 1) / 2) else 2 * ((level + 1) / 2) - 1)) data
  else None.
(* 0x3E TesterPresent: SF = 0 *)
Definition iso_tester_present : option iso_req := ireq "TesterPresent" (Some 0) [].
(* 0x14 ClearDiagnosticInformation: U24 group, [U8 memory selection, 2020 edition only] *)
Definition iso_clear_dtc (edition group : Z) (memsel : option Z) : option iso_req :=
  if in_u group 16777215 then
    match memsel with
    | None => ireq "ClearDiagnosticInformation" None (u24 group)
    | Some m => if (2020 <=? edition) && in_u m 255 then ireq "ClearDiagnosticInformation" None (u24 group ++ u8 m) else None
    end
  else None.
(* 0x31 RoutineControl: SF = type 0..0x7F, U16 routine id, record *)
Definition iso_routine (rid ct : Z) (data : option bytes) : option iso_req :=
  if in_u rid 65535 && in_u ct 127 then ireq "RoutineControl" (Some ct) (u16 rid ++ odata data) else None.
(* 0x83 AccessTimingParameter: SF = type 0..0x7F, record present iff type = 4 *)
Definition iso_access_timing (at_ : Z) (rec : option bytes) : option iso_req :=
  if in_u at_ 127 then
    match rec with
    | Some d => if at_ =? 4 then ireq "AccessTimingParameter" (Some at_) d else None
    | None => if at_ =? 4 then None else ireq "AccessTimingParameter" (Some at_) []
    end
  else None.
(* 0x28 CommunicationControl: SF = type, U8 = subnet << 4 | nm << 1 | normal, [U16 node iff type 4/5 from 2013] *)
Definition iso_comm_control (edition ct subnet : Z) (normal nm : bool) (node : option Z) : option iso_req :=
  if in_u ct 127 && in_u subnet 15 && (normal || nm) then
    let require := (2013 <=? edition) && ((ct =? 4) || (ct =? 5)) in
    let b := 16 * subnet + (if nm then 2 else 0) + (if normal then 1 else 0) in
    match node with
    | None => if require then None else ireq "CommunicationControl" (Some ct) (u8 b)
    | Some n => if require && in_u n 65535 then ireq "CommunicationControl" (Some ct) (u8 b ++ u16 n) else None
    end
  else None.
(* 0x36 TransferData: U8 block sequence counter, data *)
Definition iso_transfer_data (seq : Z) (data : option bytes) : option iso_req :=
  if in_u seq 255 then ireq "TransferData" None (u8 seq ++ odata data) else None.
(* 0x37 RequestTransferExit: data *)
Definition iso_transfer_exit (data : option bytes) : option iso_req := ireq "RequestTransferExit" None (odata data).
(* 0x85 ControlDTCSetting: SF = type 0..0x7F, record *)
Definition iso_control_dtc (t : Z) (data : option bytes) : option iso_req :=
  if in_u t 127 then ireq "ControlDTCSetting" (Some t) (odata data) else None.
(* 0x2E WriteDataByIdentifier: U16 did, value (exactly the codec's bytes) *)
Definition iso_write_did (did : Z) (codec_len : option Z) (v : bytes) : option iso_req :=
  match codec_len with
  | None => None      (* no codec configured *)
  | Some n => if in_u did 65535 && ((n <? 0) || (Z.of_nat (List.length v) =? n))
              then ireq "WriteDataByIdentifier" None (u16 did ++ v) else None
  end.
(* 0x2C clear: SF = 3, [U16 did] *)
Definition iso_clear_did (did : option Z) : option iso_req :=
  match did with
  | None => ireq "DynamicallyDefineDataIdentifier" (Some 3) []
  | Some d => if in_u d 65535 then ireq "DynamicallyDefineDataIdentifier" (Some 3) (u16 d) else None
  end.
(* 0x22 ReadDataByIdentifier without configuration (test_data_identifier): U16 x n *)
Fixpoint u16s (l : list Z) : bytes := match l with [] => [] | d :: tl => u16 d ++ u16s tl end.
Definition iso_test_did (l : list Z) : option iso_req :=
  if forallb (fun d => in_u d 65535) l then ireq "ReadDataByIdentifier" None (u16s l) else None.

(* memory-addressed requests: ALFID (size bytes << 4 | address bytes), address, size, big-endian in those widths *)
Definition iso_memloc (na ns addr size : Z) : option bytes :=
  if (1 <=? na) && (na <=? 8) && (1 <=? ns) && (ns <=? 8) && (0 <=? addr) && (addr <? 256 ^ na) && (0 <=? size) && (size <? 256 ^ ns)
  then Some ((16 * ns + na) :: be_enc (Z.to_nat na) addr ++ be_enc (Z.to_nat ns) size) else None.

(* 0x87 LinkControl: SF = type 0..0x7F; type 1: U8 standard baud-rate identifier; type 2: U24 bit rate; other types: nothing.
   The caller hands a Baudrate(rate, type) object: type 0 = a standard rate, 1 = any rate up to 24 bits, 2 = a standard
   identifier, 3 = "guess" (standard rate, else one byte = identifier, else specific).  Its meaning is a bit rate and,
   when the standard has one for it, an identifier (ISO 14229-1 Annex B.3). *)
Definition iso_baud_ids : list (Z * Z) :=
  [(9600, 1); (19200, 2); (38400, 3); (57600, 4); (115200, 5); (125000, 16); (250000, 17); (500000, 18); (1000000, 19)].
Definition iso_id_of_rate (r : Z) : option Z :=
  match find (fun '(k, _) => k =? r) iso_baud_ids with Some (_, v) => Some v | None => None end.
Definition iso_rate_of_id (i : Z) : option Z :=
  match find (fun '(_, v) => v =? i) iso_baud_ids with Some (k, _) => Some k | None => None end.
Definition iso_baud_meaning (rate ty : Z) : option (Z * option Z) :=
  if rate <? 0 then None else
  let ty' := if ty =? 3 then match iso_id_of_rate rate with Some _ => 0 | None => if rate <=? 255 then 2 else 1 end else ty in
  if ty' =? 0 then match iso_id_of_rate rate with Some i => Some (rate, Some i) | None => None end
  else if ty' =? 1 then if rate <=? 16777215 then Some (rate, iso_id_of_rate rate) else None
  else if ty' =? 2 then (if rate <=? 255 then match iso_rate_of_id rate with Some k => Some (k, Some rate) | None => None end else None)
  else None.
Definition iso_link_control (ct : Z) (b : option (Z * Z)) : option iso_req :=
  if in_u ct 127 then
    match b with
    | None => if (ct =? 1) || (ct =? 2) then None else ireq "LinkControl" (Some ct) []
    | Some (rate, ty) =>
      if ct =? 1 then match iso_baud_meaning rate ty with Some (_, Some i) => ireq "LinkControl" (Some 1) (u8 i) | _ => None end
      else if ct =? 2 then match iso_baud_meaning rate ty with Some (eff, _) => ireq "LinkControl" (Some 2) (u24 eff) | None => None end
      else None
    end
  else None.

(* 0x19 ReadDTCInformation: SF = report type, then the parameters of that type (Appendix A of DESIGN.md).  The two report types the
   library lists as "todo" (0x1A, 0x56) have no layout here.  The severity mask byte is (severity, bits 5..7 only when given as a
   Severity object) | (DTC class & 0x1F); a class without a severity mask is refused.  The size of the extended data, which the
   library validates only when decoding the reply, is not part of the request (see the known finding in DESIGN.md). *)
Definition iso_in (sub : Z) (l : list Z) : bool := existsb (Z.eqb sub) l.
Definition iso_dtc_all : list Z := [1; 2; 3; 4; 5; 6; 7; 8; 9; 10; 11; 12; 13; 14; 15; 16; 17; 18; 19; 20; 21; 22; 23; 24; 25; 26; 0x42; 0x55; 0x56].
Definition iso_dtc_2020 : list Z := [0x17; 0x16; 0x18; 0x19; 0x1A; 0x42; 0x55; 0x56].
Definition iso_severity_mask (severity : option Z) (is_object : bool) (dtc_class : option Z) : option (option Z) :=
  let s0 := match severity with Some v => Some (if is_object then Z.land v 224 else v) | None => None end in
  match dtc_class with
  | None => Some s0
  | Some c => match s0 with None => None | Some v => Some (Some (Z.lor v (Z.land c 31))) end
  end.
Definition iso_opt (o : option Z) (hi : Z) (n : nat) : option bytes :=
  match o with Some v => if in_u v hi then Some (be_enc n v) else None | None => None end.
Definition iso_cat (l : list (option bytes)) : option bytes :=
  fold_right (fun x acc => match x, acc with Some a, Some b => Some (a ++ b) | _, _ => None end) (Some []) l.
Definition iso_read_dtc (edition sub : Z) (status severity : option Z) (sev_is_object : bool) (dtc_class dtc snap ext memsel fgid : option Z)
  : option iso_req :=
  if negb (in_u sub 255 && (1 <=? sub)) || negb (iso_in sub iso_dtc_all) then None
  else if iso_in sub iso_dtc_2020 && (edition <? 2020) then None
  else match iso_severity_mask severity sev_is_object dtc_class with
  | None => None
  | Some sev =>
    let params :=
      if iso_in sub [0x0A; 0x0B; 0x0C; 0x0D; 0x0E; 0x14; 0x15; 0x03] then Some []
      else if iso_in sub [0x01; 0x02; 0x0F; 0x11; 0x12; 0x13] then iso_cat [iso_opt status 255 1]
      else if sub =? 0x04 then iso_cat [iso_opt dtc 16777215 3; iso_opt snap 255 1]
      else if sub =? 0x18 then iso_cat [iso_opt dtc 16777215 3; iso_opt snap 255 1; iso_opt memsel 255 1]
      else if sub =? 0x05 then iso_cat [iso_opt snap 255 1]
      else if iso_in sub [0x06; 0x10] then iso_cat [iso_opt dtc 16777215 3; iso_opt ext 255 1]
      else if sub =? 0x19 then iso_cat [iso_opt dtc 16777215 3; iso_opt ext 255 1; iso_opt memsel 255 1]
      else if iso_in sub [0x07; 0x08] then iso_cat [iso_opt sev 255 1; iso_opt status 255 1]
      else if sub =? 0x09 then iso_cat [iso_opt dtc 16777215 3]
      else if sub =? 0x17 then iso_cat [iso_opt status 255 1; iso_opt memsel 255 1]
      else if sub =? 0x16 then iso_cat [iso_opt ext 239 1]
      else if sub =? 0x42 then iso_cat [iso_opt fgid 254 1; iso_opt status 255 1; iso_opt sev 255 1]
      else if sub =? 0x55 then iso_cat [iso_opt fgid 254 1]
      else None in
    match params with Some d => ireq "ReadDTCInformation" (Some sub) d | None => None end
  end.

(* 0x2C 01 defineByIdentifier: U16 dynamic DID, then (U16 source DID, U8 position, U8 size)+ *)
Definition iso_bydid_entry (e : Z * Z * Z) : option bytes :=
  let '(sd, pos, ms) := e in if in_u sd 65535 && in_u pos 255 && in_u ms 255 then Some (u16 sd ++ u8 pos ++ u8 ms) else None.
Definition iso_define_by_did (did : Z) (entries : list (Z * Z * Z)) : option iso_req :=
  match entries with
  | [] => None
  | _ => if in_u did 65535 then
           match iso_cat (map iso_bydid_entry entries) with
           | Some d => ireq "DynamicallyDefineDataIdentifier" (Some 1) (u16 did ++ d)
           | None => None
           end
         else None
  end.

(* 0x29 Authentication: SF = task 0..8; 0, 8: nothing; 1, 2: U8 communicationConfiguration, L16 certificateClient, L16 challengeClient;
   3: L16 proofOfOwnershipClient, L16 ephemeralPublicKeyClient; 4: U16 certificateEvaluationId, L16 certificateData;
   5: U8 communicationConfiguration, 16 bytes algorithmIndicator; 6, 7: 16 bytes algorithmIndicator, L16 proofOfOwnershipClient,
   L16 challengeClient, L16 additionalParameter.  L16 x = 2-byte length then the bytes (at most 0xFFFF); an absent optional byte
   string is sent with length 0. *)
Definition iso_l16 (o : option bytes) : option bytes :=
  match o with
  | Some b => if Z.of_nat (List.length b) <=? 65535 then Some (u16 (Z.of_nat (List.length b)) ++ b) else None
  | None => Some [0; 0]
  end.
Definition iso_raw16 (o : option bytes) : option bytes :=
  match o with Some b => if Nat.eqb (List.length b) 16 then Some b else None | None => None end.
Definition iso_authentication (task : Z) (cfg : option Z) (cert chal algo : option bytes) (evalid : option Z)
           (certdata pown eph add : option bytes) : option iso_req :=
  if in_u task 8 then
    let params :=
      if (task =? 0) || (task =? 8) then Some []
      else if (task =? 1) || (task =? 2) then iso_cat [iso_opt cfg 255 1; iso_l16 cert; iso_l16 chal]
      else if task =? 5 then iso_cat [iso_opt cfg 255 1; iso_raw16 algo]
      else if task =? 3 then iso_cat [iso_l16 pown; iso_l16 eph]
      else if task =? 4 then iso_cat [iso_opt evalid 65535 2; iso_l16 certdata]
      else iso_cat [iso_raw16 algo; iso_l16 pown; iso_l16 chal; iso_l16 add] in
    match params with Some d => ireq "Authentication" (Some task) d | None => None end
  else None.

(* 0x38 RequestFileTransfer: U8 modeOfOperation 1..6, U16 path length, path (1..0xFFFF ASCII characters); modes 1, 3, 4, 6: U8
   dataFormatIdentifier (compression << 4 | encryption, 0 when not given); modes 1, 3, 6: U8 fileSizeParameterLength, then the
   uncompressed and the compressed size in that many bytes.  The caller gives the size as an integer or as a
   Filesize(uncompressed, compressed, width): the compressed size defaults to the uncompressed one, the width to the fewest bytes that
   hold the larger of the two.  Arguments that have no place in the mode are refused, as are sizes that do not fit the width. *)
Inductive iso_fsize := IsoFsNone | IsoFsInt (v : Z) | IsoFsObj (u c w : option Z).
Definition iso_bytes_for (v : Z) : Z := if v <=? 0 then 0 else (Z.log2 v + 8) / 8.
Definition iso_sized (u c w : option Z) : option bytes :=
  match u with
  | None => None
  | Some unc =>
    let comp := match c with Some x => x | None => unc end in
    let wd := match w with Some x => x | None => iso_bytes_for (Z.max unc comp) end in
    if (0 <=? unc) && (0 <=? comp) && (0 <=? wd) && (wd <=? 255) && (unc <? 256 ^ wd) && (comp <? 256 ^ wd)
    then Some (u8 wd ++ be_enc (Z.to_nat wd) unc ++ be_enc (Z.to_nat wd) comp) else None
  end.
Definition iso_file_transfer (moop : Z) (path : bytes) (d : option (Z * Z)) (f : iso_fsize) : option iso_req :=
  let use_dfi := (moop =? 1) || (moop =? 3) || (moop =? 4) || (moop =? 6) in
  let use_fs := (moop =? 1) || (moop =? 3) || (moop =? 6) in
  if negb (in_u moop 6 && (1 <=? moop)) then None
  else if negb ((1 <=? Z.of_nat (List.length path)) && (Z.of_nat (List.length path) <=? 65535) && forallb (fun ch => in_u ch 127) path) then None
  else
    match (if use_dfi then match d with Some (c, e) => if in_u c 15 && in_u e 15 then Some (u8 (16 * c + e)) else None | None => Some (u8 0) end
           else match d with Some _ => None | None => Some [] end) with
    | None => None
    | Some db =>
      match (if use_fs then match f with IsoFsNone => None | IsoFsInt v => iso_sized (Some v) None None | IsoFsObj u c w => iso_sized u c w end
             else match f with IsoFsNone => Some [] | _ => None end) with
      | None => None
      | Some fb => ireq "RequestFileTransfer" None (u8 moop ++ u16 (Z.of_nat (List.length path)) ++ path ++ db ++ fb)
      end
    end.

(* 0x2F InputOutputControlByIdentifier: DID, optional control parameter 0..3, control state (the codec's bytes), control enable mask.
   The library's configuration of a DID: codec length (-1 = any), whether named masks are defined, their values, mask size *)
Inductive iso_masks := IsoMNone | IsoMBool (b : bool) | IsoMList (l : list (Z * bool)).
Definition iso_io_entry := (Z * bool * list Z * option Z)%type.
Definition iso_io_entry_wf (e : iso_io_entry) : bool :=
  let '(sh, hm, mvals, msize) := e in
  (negb hm || forallb (fun m => 0 <=? m) mvals)
  && match msize with None => true | Some ms => (0 <=? ms) && (negb hm || forallb (fun m => m <? 256 ^ ms) mvals) end.
Definition iso_mask_number (mvals : list Z) (l : list (Z * bool)) : Z :=
  fold_left (fun (acc : Z) '((i, b) : Z * bool) => if b then Z.lor acc (nth (Z.to_nat i) mvals 0) else acc) l 0.
Definition iso_io_control (e : option iso_io_entry) (did : Z) (cp : option Z) (values : option bytes) (masks : iso_masks) : option iso_req :=
  match e with
  | None => None
  | Some (sh, hm, mvals, msize) =>
    if negb (in_u did 65535) then None
    else if negb (match cp with Some c => in_u c 3 | None => true end) then None
    else if (match values, masks with None, IsoMNone => false | None, _ => true | _, _ => false end) then None
    else if negb (iso_io_entry_wf (sh, hm, mvals, msize)) then None
    else
      match (match values with Some v => if (sh <? 0) || (Z.of_nat (List.length v) =? sh) then Some v else None | None => Some [] end) with
      | None => None
      | Some vb =>
        match (match masks with
               | IsoMNone => Some []
               | IsoMBool b => match msize with Some ms => Some (repeat (if b then 255 else 0) (Z.to_nat ms)) | None => None end
               | IsoMList l =>
                 if hm && forallb (fun '(i, _) => (0 <=? i) && (i <? Z.of_nat (List.length mvals))) l then
                   let num := iso_mask_number mvals l in
                   let size := match msize with Some ms => ms | None => iso_bytes_for num end in
                   if num <? 256 ^ size then Some (be_enc (Z.to_nat size) num) else None
                 else None
               end) with
        | None => None
        | Some mb => ireq "InputOutputControlByIdentifier" None (u16 did ++ (match cp with Some c => u8 c | None => [] end) ++ vb ++ mb)
        end
      end
  end.

(* 0x2C DynamicallyDefineDataIdentifier, defineByMemoryAddress (SF 2): U16 DID, one ALFID byte, then (address, size)* in the widths the
   ALFID announces.  Each source is given as MemoryLocation(address, size, address_format, memorysize_format); a format that is not
   given is the client's configured server format, else the fewest whole bytes (at least one) that hold the value.  All sources must
   end up with the same widths; a width must be 8..64 bits in steps of 8 and the value must fit it. *)
Definition iso_bit_length (v : Z) : Z := if v =? 0 then 0 else Z.log2 (Z.abs v) + 1.
Definition iso_smallest (v : Z) : Z := Z.max 1 ((iso_bit_length v + 7) / 8).
Definition iso_fmt_ok (f : Z) : bool := (8 <=? f) && (f <=? 64) && (f mod 8 =? 0).
Definition iso_mem_entry (ca cs : option Z) (e : Z * Z * option Z * option Z) : option (Z * Z * bytes) :=
  let '(addr, size, af, sf) := e in
  let fa := match af with Some f => f | None => match ca with Some f => f | None => 8 * iso_smallest addr end end in
  let fs := match sf with Some f => f | None => match cs with Some f => f | None => 8 * iso_smallest size end end in
  if iso_fmt_ok fa && iso_fmt_ok fs && (0 <=? addr) && (addr <? 256 ^ (fa / 8)) && (0 <=? size) && (size <? 256 ^ (fs / 8))
  then Some (fa / 8, fs / 8, be_enc (Z.to_nat (fa / 8)) addr ++ be_enc (Z.to_nat (fs / 8)) size) else None.
Definition iso_mem_sel (ca cs : option Z) (na ns : Z) (e : Z * Z * option Z * option Z) : option bytes :=
  match iso_mem_entry ca cs e with Some (na', ns', b) => if (na' =? na) && (ns' =? ns) then Some b else None | None => None end.
Definition iso_define_by_memory (ca cs : option Z) (did : Z) (entries : list (Z * Z * option Z * option Z)) : option iso_req :=
  match entries with
  | [] => None
  | e0 :: _ =>
    if in_u did 65535 then
      match iso_mem_entry ca cs e0 with
      | None => None
      | Some (na, ns, _) =>
        match iso_cat (map (iso_mem_sel ca cs na ns) entries) with
        | Some d => ireq "DynamicallyDefineDataIdentifier" (Some 2) (u16 did ++ [16 * ns + na] ++ d)
        | None => None
        end
      end
    else None
  end.
